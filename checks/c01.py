"""C01 — autoescaping: data never reaches an autoescaped output unescaped.

M    TLC (MC_Render, theme "escape"): InvNoRawSpecials on the rule set of Render.tla (two sinks, captures mint Safe,
     string-building operations return Normal strings, index keeps the mark): with autoescaping on and no `safe`,
     no special character reaches the output except from literal text.
S→I  every program of <= MaxTok tokens over the escape alphabet (variables, literals, ~, upper, safe, safe-registered /
     not-safe twin filters, index, attribute, set-blocks, filter sections, loops over strings and maps, includes,
     set of safe values) under autoescape on (suffix match) / off (no match), through render and render_str(.., flag);
     oracle = the exact text of Run: entities once, twice, or never.
S→I  taint sweep: 70 routes (assignments, captures, loops, literals, operators, 25 filters, includes, blocks / super /
     single blocks, component arguments / bodies / nesting, the API entry points) x 7 value kinds carrying all four
     special characters (string, bytes, nested arrays and maps) x every way of turning autoescaping on or off (suffix,
     render_str flag, render_component flag against the suffix rule): on => none of the four characters in the output,
     off => no entity in the output.
I→S  every render is traced: TLC rejects the first sink whose escape decision differs from `autoescape and not safe`
     (SinkRule), the first Safe string minted outside the allowed points (MintRule), and the first frame whose
     autoescape flag differs from the configured one (AutoescapeAsConfigured)."""
import json
import vp, render_check

# ---- taint sweep: the corollary of the statement ("with the default escaper and no use of `safe`, the output contains no
# < > " ' except those written literally in template text") on routes and value kinds outside the alphabet of MC_Render.
# All template text below is free of the four characters; every value carries all of them.
SP = "<'\">"
TAINTED = [("string", SP), ("bytes", {"$bytes": list(SP.encode())}), ("array", [SP, [SP]]), ("map", {SP: SP, "k": SP, "n": {"x": SP}}),
           ("mixed", [{"k": SP}, {"$bytes": list(SP.encode())}, 1]), ("int", 7), ("none", None),
           # each special character as the ONLY one in the value
           ("only-apostrophe", "it's"), ("only-quote", 'say "x"'), ("only-lt", "a<b"), ("only-gt", "a>b"), ("apostrophe-in-array", ["it's"]), ("apostrophe-in-map", {"k": "it's", "it's": 1})]
ROUTES = [
    "{{ v }}", "{% set x = v %}{{ x }}", "{% set x %}{{ v }}{% endset %}{{ x }}", "{% set_global x = v %}{{ x }}",
    "{% filter upper %}{{ v }}{% endfilter %}", "{% filter trim %}a{{ v }}{% endfilter %}",
    "{% for i in [v] %}{{ i }}{% endfor %}", "{% for i in v %}{{ i }}{% endfor %}", "{% for k, x in v %}{{ k }}{{ x }}{% endfor %}",
    "{{ [v] }}", "{{ [v, [v]] }}", "{{ {'k': v} }}", "{% set m = {'k': v} %}{{ m.k }}", "{% set m = {'k': v} %}{{ m['k'] }}", "{{ [v][0] }}", "{{ [v][-1] }}",
    "{{ v ~ 'a' }}", "{{ 'a' ~ v }}", "{{ v ~ v }}", "{{ v | default(value='d') }}", "{{ nothere | default(value=v) }}",
    "{{ v if true else 'a' }}", "{{ 'a' if false else v }}", "{{ v or 'a' }}", "{{ false or v }}", "{{ true and v }}",
    "{{ v[0] }}", "{{ v[0:2] }}", "{{ v[::-1] }}", "{{ v.k }}", "{{ v?.k }}", "{{ v.n.x }}", "{{ v['k'] }}",
    "{{ v | upper }}", "{{ v | lower }}", "{{ v | trim }}", "{{ v | capitalize }}", "{{ v | title }}", "{{ v | reverse }}", "{{ v | first }}",
    "{{ v | last }}", "{{ v | str }}", "{{ v | join(sep=', ') }}", "{{ ['a', 'b'] | join(sep=v) }}", "{{ 'aba' | replace(from='b', to=v) }}",
    "{{ v | truncate(length=2) }}", "{{ v | truncate(length=1, end=v) }}", "{{ v | split(pat='&') }}", "{{ v | keys }}", "{{ v | values }}",
    "{{ v | pairs }}", "{{ v | get(key='k') }}", "{{ v | get(key='zz', default=v) }}", "{{ v | unique }}", "{{ v | sort }}", "{{ v | nth(n=0) }}",
    "{{ v | indent }}", "{{ v | length }}", "{{ __tera_context }}", "{% include 'inc' %}", "{% set x = v %}{% include 'incx' %}",
    "{{<c p={v} />}}", "{{<c p={[v]} />}}", "{% set o = {'p': v} %}{{<c {...o} />}}", "{% <c p='a'> %}{{ v }}{% </c> %}", "{% <c p={v}> %}{{ v }}{% </c> %}",
    "{{<outer p={v} />}}", "{% <outer p={v}> %}{{ v }}{% </outer> %}",
    "{% for i in [1, 2] %}{% set x %}{{ v }}{% endset %}{{ x }}{% endfor %}", "{% if v %}{{ v }}{% endif %}",
    # values of safe ORIGIN (captures, component results) combined with data by filters and operators: what comes out is a new
    # string, and data in it is still data
    "{% set a %}x{% endset %}{% set b %}y{% endset %}{{ [a, b] | join(sep=v) }}", "{% set a %}x{% endset %}{{ [a, v] | join(sep='-') }}", "{% set a %}x{% endset %}{{ [a] | join(sep=v) ~ v }}",
    "{% set a %}xax{% endset %}{{ a | replace(from='a', to=v) }}", "{% set a %}xyz{% endset %}{{ a | truncate(length=1, end=v) }}", "{% set a %}x{% endset %}{{ a ~ v }}|{{ v ~ a }}",
    "{% set a %}{% endset %}{{ a | default(value=v, boolean=true) }}", "{% set a %}x,y{% endset %}{{ a | split(pat=',') | join(sep=v) }}", "{% set a %}x{% endset %}{{ [a, a] | first ~ v }}",
    "{% set a %}x{% endset %}{{ a | indent(width=1) ~ v }}", "{% set a %}x{% endset %}{{ {'k': a, 'd': v} }}", "{% set a %}x{% endset %}{{ [a, v] }}", "{% set a %}x{% endset %}{% set m = {'k': a, 'd': v} %}{{ m.d }}{{ m.k }}",
    # literal template text inside captured bodies (a body that is ONE static text node, with and without attributes): written
    # as it stands -- "T&T" must come out verbatim
    "{% <nb> %}T&T{% </nb> %}{{ v }}", "{% <nb> %}T&T{{ v }}{% </nb> %}", "{% <c p='a'> %}T&T{% </c> %}{{ v }}", "{% set x %}T&T{% endset %}{{ x }}{{ v }}",
    "{% filter safe %}T&T{% endfilter %}{{ v }}", "{% <nb> %}{% <nb> %}T&T{% </nb> %}{% </nb> %}{{ v }}", "{% for i in [1] %}{% <nb> %}T&T{% </nb> %}{% endfor %}{{ v }}",
    # an ATTRIBUTE that happens to be called `body` (written out, or arriving through a spread) is data like any other
    "{{<rb body={v} />}}", "{% set o = {'body': v} %}{{<rb {...o} />}}", "{% <rb body={v}> %}x{% </rb> %}", "{{<rb body={v} rest={v} />}}",
    "{% set a = <c p='x' /> %}{{ [a, a] | join(sep=v) }}", "{% set a %}x{% endset %}{{ (a if false else v) }}", "{% set a %}x{% endset %}{{ [a, v] | last }}{{ [v, a] | first }}", "{% set a %}x{% endset %}{{ [a, v] | reverse | join }}",
]
LIB = [["inc", "I{{ v }}"], ["incx", "I{{ x }}"],
       ["comps", "{% component c(p) %}C{{ p }}{% if body is defined %}{{ body }}{% endif %}{% endcomponent c %}"
                 "{% component nb() %}{{ body }}{% endcomponent nb %}{% component rb(...rest) %}R{{ rest.body }}|{% if body is defined %}B{{ body }}{% endif %}|{{ rest }}{% endcomponent rb %}{% component outer(p) %}O{{<c p={p} />}}{% <c p={p}> %}{{ p }}{% if body is defined %}{{ body }}{% endif %}{% </c> %}{% endcomponent outer %}"],
       ["compinc", "{% component ci(p) %}{% set v = p %}K{% include 'inc' %}{{<c p={p} />}}{% endcomponent ci %}"],
       ["base", "B{% block a %}P{{ v }}{% endblock %}{% block b %}{% endblock %}"],
       ["child", "{% extends 'base' %}{% block a %}K{{ super() }}{{ v }}{% endblock %}{% block b %}{% filter upper %}{% block n %}N{{ v }}{% endblock %}{% endfilter %}{% endblock %}"]]
ENTITIES = ("&lt;", "&gt;", "&quot;", "&#39;", "&#x27;", "&amp;")


def sweep(C, tier):
    """Every route x value kind, with autoescaping on through each way of turning it on (name suffix, render_str flag,
    render_component flag against the suffix rule) and off through each way of turning it off; all renders traced."""
    jobs, meta = [], []
    def lib(sfx):
        out = []
        for n, src in LIB:
            for m in ("inc", "incx", "base"):
                src = src.replace("'%s'" % m, "'%s%s'" % (m, sfx))
            out.append([n + sfx, src])
        return out
    for ri, route in enumerate(ROUTES):
        for kind, val in TAINTED:
            for mode in ("suffix-on", "str-on", "suffix-off", "str-off"):
                on = mode.endswith("on")
                sfx = ".html" if on else ".txt"      # every template taking part shares the mode
                src = route
                for m in ("inc", "incx"):
                    src = src.replace("'%s'" % m, "'%s%s'" % (m, sfx))
                steps = [{"op": "add", "tpls": lib(sfx) + [["t" + sfx, src]]}]
                if mode.startswith("suffix"):
                    steps.append({"op": "render", "name": "t" + sfx, "expect_ae": on})
                else:
                    steps.append({"op": "render_str", "src": src, "auto": on, "expect_ae": on})
                jobs.append({"cfg": {"autoescape": [".html"]}, "ctx": {"v": val}, "steps": steps})
                meta.append((route, kind, mode, on))
    # inheritance / single blocks / components through the API, flag against the suffix rule in both directions
    for kind, val in TAINTED:
        for sfx, on_suffix in ((".html", True), (".txt", False)):
            steps = [{"op": "add", "tpls": lib(sfx)},
                     {"op": "render", "name": "child" + sfx, "expect_ae": on_suffix},
                     {"op": "render_block", "name": "child" + sfx, "block": "a", "expect_ae": on_suffix},
                     {"op": "render_block", "name": "child" + sfx, "block": "n", "expect_ae": on_suffix}]
            jobs.append({"cfg": {"autoescape": [".html"]}, "ctx": {"v": val}, "steps": steps})
            meta.append(("inheritance", kind, "suffix%s" % sfx, None))
            for flag in (True, False):
                # the context of a component rendered through the API holds exactly its arguments
                steps = [{"op": "add", "tpls": lib(sfx)},
                         {"op": "render_component", "name": "c", "auto": flag, "expect_ae": flag},
                         {"op": "render_component", "name": "c", "auto": flag, "body": "b", "expect_ae": flag},
                         {"op": "render_component", "name": "outer", "auto": flag, "expect_ae": flag},
                         {"op": "render_component", "name": "outer", "auto": flag, "body": "b", "expect_ae": flag},
                         {"op": "render_component", "name": "ci", "auto": flag, "expect_ae": flag}]
                jobs.append({"cfg": {"autoescape": [".html"]}, "ctx": {"p": val}, "steps": steps})
                meta.append(("api", kind, "suffix%s flag=%s" % (sfx, flag), None))
    # configuration path: a custom escape function that was set and then reset leaves the default escaper in charge
    for route in ROUTES[:12]:
        for escfg in ("brackets-then-reset", "brackets"):
            jobs.append({"cfg": {"autoescape": [".html"], "escape": escfg}, "ctx": {"v": SP + "&"}, "steps": [{"op": "add", "tpls": lib(".html") + [["t.html", route]]}, {"op": "render", "name": "t.html", "expect_ae": True}]})
            meta.append((route, "string", "escaper " + escfg, True if escfg.endswith("reset") else "brackets"))
    res = vp.traced(jobs, C, "c01-sweep", timeout=1800)
    for (route, kind, mode, on), rr, job in zip(meta, res, jobs):
        for k, x in enumerate(rr[1:], 1):
            C.count()
            st = job["steps"][k]
            if on == "brackets":        # the custom escaper writes [lt] / [amp] and leaves the rest: neither < nor & may remain
                if x.get("ok") and ("<" in x.get("out", "") or "&" in x.get("out", "")):
                    C.violation({"kind": "sweep-custom-escaper", "route": route}, "custom escape function: %r writes %r" % (route, x.get("out")), {"job": job})
                continue
            eff = on if on is not None else st["expect_ae"]
            key = {"kind": "sweep", "route": route, "value": kind, "mode": mode, "op": st["op"]}
            if x.get("panic") or x.get("abort"):
                C.violation(dict(key, kind="panic"), "panic rendering %r with a %s value" % (route, kind), {"job": job, "result": x})
                continue
            if not rr[0].get("ok"):
                C.violation(dict(key, kind="setup"), "sweep template refused: %r: %s" % (route, (rr[0].get("msg") or rr[0].get("disp", ""))[:200]), {"job": job})
                break
            if not x.get("ok"):
                if route in ("inheritance", "api") and kind == "string":
                    C.violation(dict(key, kind="setup"), "sweep render failed (%s %s): %s" % (route, mode, (x.get("msg") or x.get("disp", ""))[:200]), {"job": job, "step": k})
                continue                      # an error value writes nothing
            C.nontrivial([route, kind, mode, k])
            out = x.get("out", "")
            if "T&T" in route and "T&T" not in out:
                C.violation(dict(key, kind="sweep-literal"), "%r (%s): the literal text T&T of the template does not come out as it stands: %r" % (route, mode, out), {"job": job, "step": k, "out": out})
            if eff and any(ch in out for ch in SP):
                C.violation(key, "autoescape on (%s, %s): %r with a %s value writes %r" % (mode, st["op"], route if on is not None else st.get("name"), kind, out), {"job": job, "step": k, "out": out})
            if not eff and any(e in out for e in ENTITIES):
                C.violation(dict(key, kind="sweep-off"), "autoescape off (%s, %s): %r with a %s value went through the escaper: %r" % (mode, st["op"], route if on is not None else st.get("name"), kind, out),
                            {"job": job, "step": k, "out": out})
    C.sample({"sweep_route": ROUTES[3], "value_kind": "bytes", "oracle": "no < > \" ' in the output when autoescaping is on; no entity when it is off"})
    return len(jobs)



def suffixes(C):
    """MC_Suffix: which names are autoescaped under which suffix configuration (default included, set before and after the
    templates are added); observed on the registry projection, on every frame of the traced render and in the output."""
    r = vp.tlc("MC_Suffix", "MC_Suffix", workers=2, timeout=300, name="c01-suffix")
    C.add_tlc(r, "MC_Suffix (name suffix rule)")
    seen, jobs, meta = set(), [], []
    for v in r.tags["VEC"]:
        name, cfg = "".join(v["n"]), ["".join(x) for x in v["cfg"]]
        if (name, tuple(cfg)) in seen:
            continue
        seen.add((name, tuple(cfg)))
        tpls = [[name, "{{ v }}"]]
        variants = [({"autoescape": cfg}, [{"op": "add", "tpls": tpls}]),                                              # configured first
                    ({"autoescape": [".zz"]}, [{"op": "add", "tpls": tpls}, {"op": "autoescape", "suffixes": cfg}])]      # reconfigured afterwards
        if v["default"]:
            variants.append(({}, [{"op": "add", "tpls": tpls}]))                                                        # nothing configured
        # registered from a file whose own extension (.tpl) says nothing: the NAME decides
        variants.append(({"autoescape": cfg}, [{"op": "add", "tpls": tpls, "via": "files"}]))
        for c, steps in variants:
            jobs.append({"cfg": c, "ctx": {"v": "<"}, "steps": steps + [{"op": "state"}, {"op": "render", "name": name, "expect_ae": v["ae"]}]})
            meta.append((name, cfg, v["ae"], len(steps)))
    res = vp.traced(jobs, C, "c01-suffix")
    for (name, cfg, ae, k), rr, job in zip(meta, res, jobs):
        C.count()
        C.nontrivial(["suffix", name, cfg, k])
        key = {"kind": "suffix", "name": name, "suffixes": cfg}
        if any(x.get("panic") or x.get("abort") for x in rr) or not all(x.get("ok") for x in rr):
            C.violation(dict(key, kind="suffix-error"), "error/panic with template name %r and suffixes %s: %s" % (name, cfg, [x for x in rr if not x.get("ok")][:1]), {"job": job})
            continue
        st = {t["name"]: t for t in rr[k]["state"]["templates"]}
        got = rr[k + 1].get("out")
        if st[name].get("ae") != ae or got != ("&lt;" if ae else "<"):
            C.violation(key, "template %r with autoescape suffixes %s (%s): flag %s, `{{ v }}` writes %r; the name %s with one of the suffixes" % (
                name, cfg, "set before adding" if k == 1 and "autoescape" in job["cfg"] and job["cfg"]["autoescape"] == cfg else "set afterwards / default", st[name].get("ae"), got,
                "ends" if ae else "does not end"), {"job": job})


def run(tier):
    C = vp.Check("C01", tier, "model_checking")
    C.cov["rule"] = ("every complete program of <= MaxTok tokens over the escape alphabet x {autoescape on, off, on with a bound x}; "
                     "non-trivial = distinct (program, environment) with a specified reference result")
    n = render_check.run_theme(C, "escape", 3, traced=True, also_str=True)
    if tier == "thorough":
        # one token more, exact text only (the traces of 4-token programs over a 26-character string do not fit in memory;
        # their constructs are the ones validated at 3 tokens and in the simulation below)
        n += render_check.run_theme(C, "escape", 4, traced=False, also_str=True, tag="render-escape-4-text")
        n += render_check.run_theme(C, "escape", 8, traced=True, simulate=4000, depth=12, workers=1, tag="render-sim-escape", also_str=True)
    C.cov["sweep_renders"] = sweep(C, tier)
    suffixes(C)
    C.cov["programs"] = n
    C.cov["exhaustive"] = True
    C.assumptions += ["user contexts contain no pre-made safe strings", "all templates taking part in a render share the autoescape mode (suffix)",
                      "the default escaper (five replacements)"]
    return C.finish()


def replay(path):
    d = json.load(open(path))
    print(json.dumps(vp.run_jobs([d["replay"]["job"]], tag="replay"), indent=1), "\nexpected:", d["replay"].get("expected"))
    return 0
