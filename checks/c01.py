"""C01 — autoescaping: data never reaches an autoescaped output unescaped.

M    TLC (MC_Render, theme "escape"): InvNoRawSpecials on the rule set of Render.tla (two sinks, captures mint Safe,
     string-building operations return Normal strings, index keeps the mark): with autoescaping on and no `safe`,
     no special character reaches the output except from literal text.
S→I  every program of <= MaxTok tokens over the escape alphabet (variables, literals, ~, upper, safe, safe-registered /
     not-safe twin filters, index, attribute, set-blocks, filter sections, loops over strings and maps, includes,
     set of safe values) under autoescape on (suffix match) / off (no match), through render and render_str(.., flag);
     oracle = the exact text of Run: entities once, twice, or never.
I→S  every render is traced: TLC rejects the first sink whose escape decision differs from `autoescape and not safe`
     (SinkRule), the first Safe string minted outside the allowed points (MintRule), and the first frame whose
     autoescape flag differs from the configured one (AutoescapeAsConfigured)."""
import json
import vp, render_check


def run(tier):
    C = vp.Check("C01", tier, "model_checking")
    C.cov["rule"] = ("every complete program of <= MaxTok tokens over the escape alphabet x {autoescape on, off, on with a bound x}; "
                     "non-trivial = distinct (program, environment) with a specified reference result")
    n = render_check.run_theme(C, "escape", 3 if tier == "quick" else 4, traced=True, also_str=True)
    if tier == "thorough":
        n += render_check.run_theme(C, "escape", 8, traced=True, simulate=4000, depth=12, workers=1, tag="render-sim-escape", also_str=True)
    C.cov["programs"] = n
    C.cov["exhaustive"] = True
    C.assumptions += ["user contexts contain no pre-made safe strings", "all templates taking part in a render share the autoescape mode (suffix)",
                      "the default escaper (five replacements)"]
    return C.finish()


def replay(path):
    d = json.load(open(path))
    print(json.dumps(vp.run_jobs([d["replay"]["job"]], tag="replay"), indent=1), "\nexpected:", d["replay"].get("expected"))
    return 0
