"""C02 — expressions follow the documented operators, precedence and undefined rules.

M    TLC (MC_Expr): LogSound on the reference evaluator; enumeration of every AST in bounds.
S→I  every AST with <= MaxOps binary operators (18 operators) with one unary/postfix operator (not, unary -, is [not] defined,
     is odd, | abs, | length) at the root or on either operand of the root, a family of ternaries, and the undefined-rule family
     (6 kinds of base x 2 levels of . / [] / ?. / ?[ x 12 consumers) is printed with MINIMAL parentheses per the documented
     precedence table and with FULL parentheses, with random inter-token whitespace, and rendered as `{{ e }}`, inside
     `{% if e %}` and with every leaf as a probe call; oracle = Eval of Expr.tla: exact value, error, and the left-to-right
     log of evaluated leaves (short-circuit, ternary laziness)."""
import json, random
import vp


def val(v):
    t = v["t"]
    if t in ("int", "bool"):
        return v["v"]
    if t == "str":
        return "".join(v["v"])
    if t == "arr":
        return [val(x) for x in v["v"]]
    if t == "flt":
        return {"$f64": repr(v["v"][0] / v["v"][1])}
    if t == "map":
        return {k: val(x) for k, x in zip(v["v"][0], v["v"][1])}
    if t == "none":
        return None
    if t == "undef":
        return {"$undef": 1}
    raise ValueError(t)


def show(v):
    """expected text of {{ value }} or None when the text is not specified"""
    t = v["t"]
    if t == "int":
        return str(v["v"])
    if t == "bool":
        return "true" if v["v"] else "false"
    if t == "str":
        return "".join(v["v"])
    if t == "none":
        return ""
    if t == "flt":
        n, d = v["v"]
        return None if d == 1 else repr(n / d)
    if t == "arr" and all(x["t"] == "int" for x in v["v"]):
        return "[" + ", ".join(str(x["v"]) for x in v["v"]) + "]"
    return None


def spell(toks, rnd, probe):
    out = []
    for t in toks:
        if isinstance(t, dict):
            if "leaf" in t:
                s = "p(k='%d', v=v%d)" % (t["leaf"], t["leaf"]) if probe else "v%d" % t["leaf"]
            elif "var" in t:
                s = t["var"]
            else:
                c = t["cst"]
                s = "'%s'" % "".join(c["v"]) if c["t"] == "str" else str(c["v"])
        else:
            s = t
        glue = isinstance(t, str) and t[0] in ".?["
        if out and not glue:
            out.append(rnd.choice([" ", " ", "  ", "\n", " \t"]))
        out.append(s)
    return "".join(out)


def lit(v):
    """a specification value written as a template literal (closing braces are kept apart: `}}` would end the expression)"""
    t = v["t"]
    if t == "int":
        return str(v["i"])
    if t == "str":
        return "'" + v["s"] + "'"
    if t == "none":
        return "none"
    if t == "arr":
        return "[" + ", ".join(lit(x) for x in v["xs"]) + "]"
    if t == "map":
        return "{" + ", ".join("'%s': %s" % (kv[0], lit(kv[1])) for kv in v["xs"]) + " }"
    raise ValueError(t)


CCTX = {"x": 3, "xs": [1, 2], "es": [], "m": {"a": 1, "b": 2}, "m2": {"b": 9, "c": 3}, "s": "pq", "y": 7, "n": None}


def colls(C, tier):
    """array / map literals with spreads and list comprehensions (MC_Coll): value compared through == with the expected
    value written as a literal; the outer x must be untouched afterwards."""
    with open(vp.SPEC + "/MC_Coll_run.cfg", "w") as f:
        f.write(open(vp.SPEC + "/MC_Coll.cfg").read().replace("MaxItems = 3", "MaxItems = %d" % (3 if tier == "quick" else 4)))
    r = vp.tlc("MC_Coll", "MC_Coll_run", workers=4, timeout=1200, name="c02-coll")
    C.add_tlc(r, "MC_Coll (collection literals, spreads, comprehensions)")
    seen, jobs, meta = set(), [], []
    for v in r.tags["VEC"]:
        if v["kind"] == "arr":
            e = "[" + ", ".join(("..." if i["sp"] else "") + i["e"] for i in v["arr"]) + "]"
        elif v["kind"] == "map":
            e = "{" + ", ".join(("..." + i["e"]) if i["sp"] else ("'%s': %s" % (i["k"], i["e"])) for i in v["map"]) + " }"
        else:
            c = v["comp"]
            e = "[" + c["body"] + " for " + ("k, x" if c["two"] else "x") + " in " + c["it"] + ((" if " + c["cond"]) if c["cond"] else "") + "]"
        if e in seen:
            continue
        seen.add(e)
        res = v["res"]
        steps = [{"op": "render_str", "src": "{{ " + e + " }}", "auto": False}]
        if res["r"] == "ok":
            unordered = v["kind"] == "comp" and v["comp"]["two"]          # map iteration order is not specified
            cmp_ = "(%s | sort) == (%s | sort)" % (e, lit(res["v"])) if unordered and len(res["v"]["xs"]) > 1 else "(%s) == %s" % (e, lit(res["v"]))
            steps.append({"op": "render_str", "src": "{{ " + cmp_ + " }}|{{ (" + e + ") | length }}|{{ x }}|{{ k is defined }}", "auto": False})
        jobs.append({"ctx": CCTX, "steps": steps})
        meta.append((e, res))
    out = vp.traced(jobs, C, "c02-coll")
    for (e, res), rr, job in zip(meta, out, jobs):
        C.count()
        key = {"kind": "collection", "expr": e}
        if any(x.get("panic") or x.get("abort") for x in rr):
            C.violation(dict(key, kind="panic"), "panic evaluating `%s`" % e, {"job": job, "result": rr})
            continue
        if res["r"] == "unspec":
            continue
        C.nontrivial(["coll", e])
        if res["r"] == "err":
            if rr[0].get("ok"):
                C.violation(dict(key, kind="coll-noerr"), "`%s` renders %r; the documentation makes it an error" % (e, rr[0].get("out")), {"job": job})
            continue
        want = "true|%d|3|false" % len(res["v"]["xs"])
        got = rr[1].get("out") if rr[1].get("ok") else "error: " + (rr[1].get("msg") or rr[1].get("disp", ""))[:100]
        if got != want:
            C.violation(dict(key, kind="coll-value"), "`%s` is %s in the engine (== expected literal | length | outer x | k leaked: %r), the documentation gives %s" % (
                e, rr[0].get("out") if rr[0].get("ok") else "an error", got, lit(res["v"])), {"job": job, "expected": res})
    C.sample({"collection": meta[len(meta) // 2][0], "expected": meta[len(meta) // 2][1]})


def run(tier):
    C = vp.Check("C02", tier, "exploration")
    maxops = 2 if tier == "quick" else 3
    with open(vp.SPEC + "/MC_Expr_run.cfg", "w") as f:
        f.write(open(vp.SPEC + "/MC_Expr.cfg").read().replace("MaxOps = 2", "MaxOps = %d" % maxops))
    r = vp.tlc("MC_Expr", "MC_Expr_run", workers=8, timeout=3000, name="c02", xmx="16g")
    C.add_tlc(r, "MC_Expr MaxOps=%d" % maxops)
    C.cov["exhaustive"] = True
    C.cov["rule"] = ("all ASTs with <= %d binary operators out of 18 (+ one unary/postfix operator in 3 positions), 517 ternaries, the undefined-rule "
                     "family, x 6 leaf valuations x {minimal, full parentheses, inside if, probe spelling}; non-trivial = distinct (AST, valuation) with a specified result" % maxops)
    envd = r.tags["ENV"][0]
    vals = envd["vals"]
    base_env = {k: val(v) for k, v in envd["env"].items()}
    rnd = random.Random(vp.seed() + 11)
    jobs, meta = [], []
    for vi, v in enumerate(r.tags["VEC"]):
        for k, vv in enumerate(vals):
            if v["nl"] == 0 and k > 0:
                break
            ctx = dict(base_env)
            has_undef = False
            for i, x in enumerate(vv, 1):
                if x["t"] == "undef":
                    has_undef = True
                else:
                    ctx["v%d" % i] = val(x)
            mn, fl = spell(v["min"], rnd, False), spell(v["full"], rnd, False)
            steps = [{"op": "render_str", "src": "{{ %s }}" % mn, "auto": False},
                     {"op": "render_str", "src": "{{ %s }}" % fl, "auto": False},
                     {"op": "render_str", "src": "{%% if %s %%}T{%% else %%}F{%% endif %%}" % mn, "auto": False}]
            if not has_undef and v["nl"] > 0:
                steps.append({"op": "render_str", "src": "{{ %s }}" % spell(v["min"], rnd, True), "auto": False})
            jobs.append({"cfg": {"probes": True}, "ctx": ctx, "steps": steps})
            meta.append((vi, k, mn, fl))
    res = vp.run_jobs(jobs, tag="c02", timeout=3000)
    vecs = r.tags["VEC"]
    for (vi, k, mn, fl), rr, job in zip(meta, res, jobs):
        exp = vecs[vi]["r"][k]
        C.count(len(rr))
        key = {"expr": " ".join(mn.split()), "val": k}
        if any(y.get("panic") or y.get("abort") for y in rr):
            C.violation(dict(key, kind="panic"), "panic evaluating %r" % mn, {"job": job, "result": rr})
            continue
        if exp["r"] == "unspec":
            continue
        if vecs[vi].get("fam") in ("pacc", "pacct") and all(y.get("kind") == "SyntaxError" for y in rr):
            continue        # `(e).a` is not documented syntax: refused as a whole, nothing is demanded
        C.nontrivial([vi, k])
        a, b, c = rr[0], rr[1], rr[2]
        if exp["r"] == "err":
            for which, x, src in (("minimal", a, mn), ("full", b, fl), ("if", c, mn)):
                if x.get("ok"):
                    C.violation(dict(key, kind="noerr", spelling=which), "`%s` (valuation %d, %s): engine gives %r, the documentation makes it an error" % (src, k, which, x.get("out")),
                                {"job": job, "expected": exp, "got": x})
            continue
        undef = exp["v"]["t"] == "undef"
        text = show(exp["v"])
        for which, x, src in (("minimal", a, mn), ("full", b, fl)):
            if undef:
                if x.get("ok"):
                    C.violation(dict(key, kind="printed-undefined", spelling=which), "`%s` (valuation %d) is undefined but printed as %r" % (src, k, x.get("out")),
                                {"job": job, "expected": exp, "got": x})
            elif not x.get("ok") or (text is not None and x.get("out") != text):
                C.violation(dict(key, kind="value", spelling=which), "`%s` (valuation %d, %s parentheses): engine %s, documented semantics %r" % (
                    src, k, which, repr(x.get("out")) if x.get("ok") else "error: " + (x.get("msg") or x.get("disp", ""))[:100], text),
                    {"job": job, "expected": exp, "got": x})
        want = "T" if exp["tr"] else "F"
        if not c.get("ok") or c.get("out") != want:
            C.violation(dict(key, kind="truthiness"), "{%% if %s %%} (valuation %d): engine %s, expected branch %s" % (
                mn, k, repr(c.get("out")) if c.get("ok") else "error: " + (c.get("msg") or c.get("disp", ""))[:100], want), {"job": job, "expected": exp, "got": c})
        if len(rr) > 3:
            p = rr[3]
            log = [int(x) for x in p.get("log", [])]
            if not undef and (not p.get("ok") or log != exp["log"]):
                C.violation(dict(key, kind="order"), "`%s` (valuation %d): evaluated leaves %s, the documentation implies %s%s" % (
                    mn, k, log, exp["log"], "" if p.get("ok") else " (and the probe spelling failed: %s)" % (p.get("msg") or "")[:80]),
                    {"job": job, "expected": exp, "got": p})
    colls(C, tier)
    for k in (len(meta) // 2, 10, len(meta) - 3):
        C.sample({"minimal": meta[k][2], "full": meta[k][3], "valuation": meta[k][1], "expected": vecs[meta[k][0]]["r"][meta[k][1]]})
    C.assumptions += ["left-associativity of the non-`**` rows is the Python/Jinja2 convention the documentation defers to",
                      "unspecified (no-panic only): `~` on undefined/none/containers, == with undefined, ordering of equal non-numeric kinds, float arithmetic text, "
                      "`**` with large operands, subscripting scalars, `in` on maps",
                      "collections: an undefined name as a literal element, one loop name over a map, `is odd` on a string, and the order of map iteration are unspecified"]
    return C.finish()


def replay(path):
    d = json.load(open(path))
    print(json.dumps(vp.run_jobs([d["replay"]["job"]], tag="replay"), indent=1), "\nexpected:", d["replay"].get("expected"))
    return 0
