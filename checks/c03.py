"""C03 — control flow, variable scoping, captures and includes behave as documented.

M    TLC (MC_Render): the generator/semantics machine; InvWellEnded on the reference semantics itself.
S→I  every well-formed program of <= MaxTok tokens of five themes (flow: if/elif/else/for/else/break/continue/
     loop.*; scope: set/set_global/loop shadowing/include over four-scope shadowing contexts; capture: set-blocks,
     filter sections, includes inside captures, break inside loops inside captures; global: every way of assigning
     x -- set / set_global, expression and block form, with and without a filter -- inside and outside a loop, read
     inside and after it, one token deeper than the other themes) is printed as template text
     and rendered; oracle = Run(prog, env) of Render.tla: exact output, or error.
I→S  every render is traced and validated against TeraVM on the real listing."""
import json
import vp, render_check


def map_iteration(C, tier):
    """MC_MapIter: the laws of map iteration on recorded observations (the visiting order of a map is not specified)."""
    import os, re, itertools
    KEYS = [("a", "a"), ("b", "b"), ("é", "é"), ({"$i64": "7"}, "7"), ({"$i64": "-1"}, "-1"), (True, "true"), ({"$u64": "18446744073709551615"}, "18446744073709551615"), ("", "")]
    BODY = "{{ k }}\x1f{{ v }}\x1f{{ loop.index }}\x1f{{ loop.index0 }}\x1f{{ loop.first }}\x1f{{ loop.last }}\x1f{{ loop.length }}\x1e"
    jobs, meta = [], []
    for n in range(0, len(KEYS) + 1):
        for rot in range(0, max(1, n)):
            ks = (KEYS[rot:] + KEYS[:rot])[:n]
            m = {"$map": [[k, j + 1] for j, (k, _) in enumerate(ks)]}
            for stop in [0] + ([1, 2] if n >= 2 else []):
                brk = "{% if loop.index == " + str(stop) + " %}{% break %}{% endif %}" if stop else ""
                for wrap in ("%s", "{%% for z in [1] %%}%s{%% endfor %%}", "{%% set c %%}%s{%% endset %%}{{ c }}"):
                    src = wrap % ("{% for k, v in m %}" + BODY + brk + "{% else %}ELSE{% endfor %}")
                    jobs.append({"cfg": {}, "ctx": {"m": m}, "steps": [{"op": "render_str", "src": src, "auto": False}]})
                    meta.append(([p for _, p in ks], stop, src))
    res = vp.traced(jobs, C, "c03-mapiter")
    work = vp.workdir("c03")
    op = os.path.join(work, "mapiter.ndjson")
    recs = []
    with open(op, "w") as f:
        for (keys, stop, src), rr, job in zip(meta, res, jobs):
            C.count()
            C.nontrivial(["mapiter", keys, stop, src[:20]])
            x = rr[0]
            if not x.get("ok"):
                C.violation({"kind": "mapiter-error", "keys": keys, "stop": stop}, "iterating a map with keys %s fails: %s" % (keys, (x.get("msg") or x.get("disp", "") or str(x))[:150]), {"job": job})
                continue
            out = x["out"]
            seen = []
            for it in out.replace("ELSE", "").split("\x1e")[:-1]:
                p = it.split("\x1f")
                try:
                    seen.append({"k": p[0], "v": int(p[1]), "index": int(p[2]), "index0": int(p[3]), "first": p[4] == "true", "last": p[5] == "true", "length": int(p[6])})
                except (ValueError, IndexError):
                    seen.append({"k": "?" + it, "v": -1, "index": -1, "index0": -1, "first": False, "last": False, "length": -1})
            o = {"n": len(keys), "keys": keys, "seen": seen, "else": out.endswith("ELSE"), "stop": stop, "src": src, "out": out}
            f.write(json.dumps(o) + "\n")
            recs.append((o, job))
    r = vp.tlc("MC_MapIter", "MC_MapIter", env={"OBS": op}, workers=4, timeout=600, name="c03-mapiter", allow_fail=True)
    C.add_tlc(r, "MC_MapIter over %d recorded map iterations" % len(recs))
    if not r.ok:
        if r.violated != "InvMapIteration":
            raise vp.ToolError("MC_MapIter failed: " + r.error[:300])
        m_ = re.search(r"i = (\d+)", r.out)
        o, job = recs[int(m_.group(1)) - 1] if m_ else ({}, None)
        C.violation({"kind": "mapiter", "keys": o.get("keys"), "stop": o.get("stop")}, "map iteration breaks its laws: keys %s, break at %s, %r renders %r" % (
            o.get("keys"), o.get("stop"), o.get("src"), o.get("out")), {"job": job, "observation": o})


def run(tier):
    C = vp.Check("C03", tier, "model_checking")
    C.cov["rule"] = ("every complete program of <= MaxTok tokens over the theme's alphabet x every environment of the theme; "
                     "non-trivial = distinct (program, environment) whose reference result is specified (ok or error)")
    mt = {"flow": 4, "scope": 4, "capture": 4, "global": 5, "nest": 6, "gcap": 6} if tier == "quick" else {"flow": 5, "scope": 5, "capture": 5, "global": 6, "nest": 7, "gcap": 7}
    n = 0
    for theme in ("flow", "scope", "capture", "global", "nest", "gcap"):
        # (the assignment and nesting themes repeat constructs whose VM steps the other three themes already validate: exact text only)
        n += render_check.run_theme(C, theme, mt[theme], traced=(tier == "quick" and theme not in ("global", "nest", "gcap")), also_api=(theme == "scope"))
    if tier == "thorough":
        for theme in ("flow", "scope", "capture"):
            n += render_check.run_theme(C, theme, 9, traced=True, simulate=3000, depth=14, workers=1, tag="render-sim-" + theme)
    map_iteration(C, tier)
    C.cov["programs"] = n
    C.cov["exhaustive"] = True
    C.assumptions += ["iteration order of maps with more than one entry, `~` on none/containers and printing of containers are unspecified (no-panic only)",
                      "token alphabets are fixed per theme (see MC_Render.tla); names x, y, i; library templates inc / incd"]
    return C.finish()


def replay(path):
    d = json.load(open(path))
    print(json.dumps(vp.run_jobs([d["replay"]["job"]], tag="replay"), indent=1), "\nexpected:", d["replay"].get("expected"))
    return 0
