"""C03 — control flow, variable scoping, captures and includes behave as documented.

M    TLC (MC_Render): the generator/semantics machine; InvWellEnded on the reference semantics itself.
S→I  every well-formed program of <= MaxTok tokens of four themes (flow: if/elif/else/for/else/break/continue/
     loop.*; scope: set/set_global/loop shadowing/include over four-scope shadowing contexts; capture: set-blocks,
     filter sections, includes inside captures, break inside loops inside captures; global: every way of assigning
     x -- set / set_global, expression and block form, with and without a filter -- inside and outside a loop, read
     inside and after it, one token deeper than the other themes) is printed as template text
     and rendered; oracle = Run(prog, env) of Render.tla: exact output, or error.
I→S  every render is traced and validated against TeraVM on the real listing."""
import json
import vp, render_check


def run(tier):
    C = vp.Check("C03", tier, "model_checking")
    C.cov["rule"] = ("every complete program of <= MaxTok tokens over the theme's alphabet x every environment of the theme; "
                     "non-trivial = distinct (program, environment) whose reference result is specified (ok or error)")
    mt = {"flow": 4, "scope": 4, "capture": 4, "global": 5} if tier == "quick" else {"flow": 5, "scope": 5, "capture": 5, "global": 6}
    n = 0
    for theme in ("flow", "scope", "capture", "global"):
        # (the assignment theme repeats constructs whose VM steps the other three themes already validate: exact text only)
        n += render_check.run_theme(C, theme, mt[theme], traced=(tier == "quick" and theme != "global"))
    if tier == "thorough":
        for theme in ("flow", "scope", "capture"):
            n += render_check.run_theme(C, theme, 9, traced=True, simulate=3000, depth=14, workers=1, tag="render-sim-" + theme)
    C.cov["programs"] = n
    C.cov["exhaustive"] = True
    C.assumptions += ["iteration order of maps with more than one entry, `~` on none/containers and printing of containers are unspecified (no-panic only)",
                      "token alphabets are fixed per theme (see MC_Render.tla); names x, y, i; library templates inc / incd"]
    return C.finish()


def replay(path):
    d = json.load(open(path))
    print(json.dumps(vp.run_jobs([d["replay"]["job"]], tag="replay"), indent=1), "\nexpected:", d["replay"].get("expected"))
    return 0
