"""C04 — inheritance: blocks resolve to the most-derived override and super() walks up.

M    TLC (MC_Lineage): on every chain/block configuration in bounds the lineage construction shaped like
     finalize_templates equals the declarative lineage (InvAlgoIsDecl) and has the documented shape (InvLineageShape).
S→I  every configuration (chain length <= MaxChain; per level blocks a, b absent / defined / defined + super(); b at top
     level, nested in a, or nested in a inside a filter section) is printed as templates, registered in every batch
     order and one by one, and for every template of the chain: render, render_block(a), render_block(b) and the
     registry projection (lineage origins) are compared with Registry.tla: the text of the declarative render,
     `render_block` = the text that block writes during the full render ("" when never reached), errors where no
     ancestor defines a block that calls super() / where a child's top-level block is unknown to all ancestors.
I→S  every render is traced and validated against TeraVM on the real listing (block / super frames)."""
import json, itertools, random
import vp, registry_glue as G
from c10 import check_text


def run(tier):
    C = vp.Check("C04", tier, "model_checking")
    maxchain = 3 if tier == "quick" else 4
    # chains of 3 with every block shape (siblings and three levels of nesting included); in the thorough tier also chains
    # of 4 without those two shapes (with them the configurations of 4 levels run into the millions)
    r = vp.tlc("MC_Lineage", "MC_Lineage", workers=8, timeout=6000, name="c04", xmx="24g")
    C.add_tlc(r, "MC_Lineage MaxChain=3, all block shapes")
    vecs = r.tags["VEC"]
    if tier != "quick":
        with open(vp.SPEC + "/MC_Lineage_run.cfg", "w") as f:
            f.write(open(vp.SPEC + "/MC_Lineage.cfg").read().replace("MaxChain = 3", "MaxChain = 4").replace("Extras = TRUE", "Extras = FALSE"))
        r4 = vp.tlc("MC_Lineage", "MC_Lineage_run", workers=8, timeout=6000, name="c04-4", xmx="24g")
        C.add_tlc(r4, "MC_Lineage MaxChain=4, without the sibling / three-level shapes")
        seen4 = set(json.dumps(v["g"], sort_keys=True) for v in vecs)
        lite = [v for v in r4.tags["VEC"] if json.dumps(v["g"], sort_keys=True) not in seen4]
        for v in lite:
            v["_lite"] = True          # chains of 4: two batch orders and the one-by-one history only (they are ~8 x 10^5)
        vecs = vecs + lite
    # longer chains with block a only (absent / defined / defined with super() per level): gaps between definers
    slim = 5 if tier == "quick" else 5
    with open(vp.SPEC + "/MC_Lineage_run.cfg", "w") as f:
        f.write(open(vp.SPEC + "/MC_Lineage.cfg").read().replace("MaxChain = 3", "MaxChain = %d" % slim).replace("Slim = FALSE", "Slim = TRUE"))
    r5 = vp.tlc("MC_Lineage", "MC_Lineage_run", workers=8, timeout=6000, name="c04-slim", xmx="24g")
    C.add_tlc(r5, "MC_Lineage MaxChain=%d, block a only" % slim)
    seen = set(json.dumps(v["g"], sort_keys=True) for v in vecs)
    vecs = vecs + [v for v in r5.tags["VEC"] if json.dumps(v["g"], sort_keys=True) not in seen]
    C.cov["exhaustive"] = True
    C.cov["rule"] = ("every chain of length <= %d x per level (a, b in none/def/super; b top/nested/nested under a capture); registered in every batch "
                     "order (sampled beyond 6) and one by one; non-trivial = distinct configuration with at least one block defined" % maxchain)
    rnd = random.Random(vp.seed() + 3)
    # (in slices of CHUNK configurations: the jobs of all of them together do not fit in memory in the thorough tier)
    CHUNK = 20000
    for lo in range(0, len(vecs), CHUNK):
        jobs, meta = [], []
        for vi, v in enumerate(vecs[lo:lo + CHUNK], lo):
            names = sorted(v["g"].keys())
            tpls = [[n, G.src(n, v["g"][n])] for n in names]
            perms = list(itertools.permutations(tpls))
            if len(perms) > 3:
                perms = [perms[0]] + rnd.sample(perms[1:-1], 1 if tier == "quick" else 2) + [perms[-1]]
            if tier == "quick" and len(perms) > 2:
                perms = [perms[0], perms[-1]]         # (a third order goes through add_template_files below)
            if v.get("_lite"):
                perms = [perms[0], perms[-1]]
            variants = [[{"op": "add", "tpls": list(p)}] for p in perms]
            allp = list(itertools.permutations(tpls))
            variants.append([{"op": "add", "tpls": list(allp[len(allp) // 2]), "via": "files"}])          # a batch through add_template_files
            if v["ok"] and len(tpls) > 1:
                byname = dict(tpls)
                order, cur = [], [n for n in names if not v["g"][n]["ext"]][0]
                while cur:
                    order.append(cur)
                    cur = next((n for n in names if v["g"][n]["ext"] == cur), None)
                variants.append([{"op": "add", "tpls": [[n, byname[n]]]} for n in order])          # one by one, parents first
                # histories that end in the same set (C04: whatever the order of registration): (1) an ancestor is first registered
                # with other text of the SAME length and then replaced; (2) the second level first extends another root Z
                # and is then re-registered with its real parent -- the derived data of every descendant must follow
                root = order[0]
                def alt(n):
                    return byname[n].replace("a%s(" % n, "aQ(").replace("b%s(" % n, "bQ(").replace("L%s;" % n, "LQ;")
                for anc in order[:-1][:2]:
                    if alt(anc) != byname[anc]:
                        variants.append([{"op": "add", "tpls": [[n, alt(n) if n == anc else byname[n]] for n in names]}, {"op": "add", "tpls": [[anc, byname[anc]]]}])
                if len(order) >= 3:
                    second = order[1]
                    zsrc = G.src("Z", v["g"][root])
                    first = [["Z", zsrc]] + [[n, byname[n].replace("{%% extends '%s' %%}" % root, "{% extends 'Z' %}") if n == second else byname[n]] for n in names]
                    variants.append([{"op": "add", "tpls": first}, {"op": "add", "tpls": [[second, byname[second]]]}])
            for steps0 in variants:
                steps = list(steps0) + [{"op": "state"}]
                if v["ok"]:
                    for n in names:
                        steps += [{"op": "render", "name": n}, {"op": "render_block", "name": n, "block": "a"}, {"op": "render_block", "name": n, "block": "b"}]
                jobs.append({"cfg": {}, "steps": steps})
                meta.append((vi, len(steps0)))
        res = vp.run_jobs(jobs, tag="c04", timeout=6000)
        # I->S on a fixed fraction (1 in 24 / 16) of the jobs (deterministic): block / super frames of the real executions against TeraVM
        vp.traced([j for i, j in enumerate(jobs) if i % (24 if tier == "quick" else 16) == 0], C, "c04-trace", timeout=3000)
        for (vi, nadd), rr, job in zip(meta, res, jobs):
            v = vecs[vi]
            C.count()
            names = sorted(v["g"].keys())
            if any(d["a"] != "none" or d["b"] != "none" for d in v["g"].values()):
                C.nontrivial(v["g"])
            key = {"chain": {n: [v["g"][n]["ext"], v["g"][n]["a"], v["g"][n]["b"], "cap" if v["g"][n]["cap"] else "nest" if v["g"][n]["nest"] else "top", "super-after" if v["g"][n]["sa"] else ""] for n in names}}
            if any(x.get("panic") or x.get("abort") for x in rr):
                C.violation(dict(key, kind="panic"), "panic on chain %s" % key["chain"], {"job": job, "result": rr})
                continue
            adds = rr[:nadd]
            ok = all(a.get("ok") for a in adds)
            if ok != v["ok"]:
                C.violation(dict(key, kind="acceptance"), "chain %s: engine %s, specification %s %s" % (
                    key["chain"], "accepts" if ok else "refuses (%s)" % [a.get("kind") for a in adds if not a.get("ok")][:1], "accepts" if v["ok"] else "refuses", v["fails"]),
                    {"job": job, "expected": v["ok"], "got": adds})
                continue
            if not v["ok"]:
                continue
            st = {t["name"]: t for t in rr[nadd]["state"]["templates"]}
            k = nadd + 1
            for n in names:
                e = v["r"][n]
                lin = {x["b"]: x["from"] for x in st[n]["lineage"]}
                want = {b: e["lin"][b] for b in ("a", "b", "c") if e["lin"].get(b)}
                if lin != want:
                    C.violation(dict(key, kind="lineage", tpl=n), "chain %s: lineage of %s is %s, specification %s" % (key["chain"], n, lin, want), {"job": job})
                check_text(C, key, job, n, "render", rr[k], e["text"])
                if "!" not in e["text"]:        # when the full render is an error, what a block "writes during it" is not demanded
                    check_text(C, key, job, n, "render_block(a)", rr[k + 1], e["blocks"]["a"])
                    check_text(C, key, job, n, "render_block(b)", rr[k + 2], e["blocks"]["b"])
                k += 3
    k = len(vecs) // 2
    C.sample({"templates": {n: G.src(n, d) for n, d in vecs[k]["g"].items()}, "accepted": vecs[k]["ok"], "expected": vecs[k]["r"]})
    C.assumptions += ["block bodies are constant text, so a block written twice in one render writes the same text both times",
                      "inheritance reached through `include` is unspecified"]
    return C.finish()


def replay(path):
    d = json.load(open(path))
    print(json.dumps(vp.run_jobs([d["replay"]["job"]], tag="replay"), indent=1)[:6000], "\nexpected:", d["replay"].get("expected"))
    return 0
