"""C05 — components: arguments checked and bound, scope isolated, recursion bounded.

M    TLC (MC_Components): Bind of Components.tla (written from the statement) yields an environment holding exactly the
     declared parameters and loses no supplied argument (InvExactlyDeclared, InvNothingLost).
S→I  every (signature, call) pair — parameters p, q x type {-, string, integer, number} x default {-, "s", 1} x rest?; calls
     supplying any subset of {p, q, z} with a string / integer / float / array — as an inline call (literal and {expr}
     attributes), shorthand attributes, a spread, a call with a body, and through Tera::render_component; the body prints
     every parameter, rest, body and probes four caller-side names (a set, a loop variable, a context key, a global-context
     key) plus undeclared argument names, which must all be undefined inside.  Oracle: exact text, or error.
     Prefix priority: the same component under 0..2 fallback prefixes.  Recursion: self, mutual, through an include, through
     a body: bounded depth d renders for d <= L and fails for d > L with ONE threshold L (measured, not hard-coded),
     unbounded recursion fails with an error value while the process stays alive.
I→S  every render is traced and validated against TeraVM (component frames: fresh state, depth + 1, safe result)."""
import json, hashlib
import vp

VAL = {"str": "v<", "int": 7, "float": {"$f64": "2.5"}, "arr": [1]}
LIT = {"str": '"v<"', "int": "{7}", "float": "{2.5}", "arr": "{[1]}"}
SHOWN = {"str": "v&lt;", "int": "7", "float": "2.5", "arr": "[1]", "def:s": "s", "def:i": "1"}
BODY = ("[p={{ p }}][q={% if q is defined %}{{ q }}{% else %}U{% endif %}][z={% if z is defined %}LEAK{% else %}U{% endif %}]"
        "[rest={% if rest is defined %}{{ rest | keys | sort | join(sep='+') }}{% else %}U{% endif %}]"
        "[body={% if body is defined %}{{ body }}{% else %}U{% endif %}]"
        "{% if cs is defined or lv is defined or ck is defined or gk is defined %}LEAK{% endif %}")


def definition(sig):
    ps = []
    for p in sig["ps"]:
        s = p["n"]
        if p["typ"]:
            s += ": " + p["typ"]
        if p["def"] == "s":
            s += ' = "s"'
        elif p["def"] == "i":
            s += " = 1"
        ps.append(s)
    if sig["rest"]:
        ps.append("...rest")
    return "{% component c(" + ", ".join(ps) + ") %}" + BODY + "{% endcomponent c %}"


def expected(b, body_text):
    env = b["env"]
    def show(x):
        return SHOWN[x[4:]] if x.startswith("val:") else SHOWN[x]
    q = show(env["params"]["q"]) if "q" in env["params"] else "U"
    rest = "+".join(sorted(env["rest"])) if env["hasrest"] else "U"
    return "[p=%s][q=%s][z=U][rest=%s][body=%s]" % (show(env["params"]["p"]), q, rest, body_text)


def run(tier):
    C = vp.Check("C05", tier, "model_checking")
    r = vp.tlc("MC_Components", "MC_Components", workers=8, timeout=3000, name="c05", xmx="16g")
    C.add_tlc(r, "MC_Components")
    C.cov["exhaustive"] = True
    C.cov["rule"] = ("all 180 signatures x 125 calls; every pair as inline call and through render_component, and (all pairs in the thorough tier, a fixed third in the "
                     "quick tier) as shorthand / spread / body call; non-trivial = distinct (signature, call, form)")
    jobs, meta = [], []
    for vi, v in enumerate(r.tags["VEC"]):
        sig, call, b = v["sig"], v["call"], v["b"]
        sup = {a: k for a, k in call.items() if k != "-"}
        comp = ["c.html", definition(sig)]
        forms = ["inline", "api", "api-empty-body"] + (["api-body"] if vi % 4 == 0 else [])
        h = int(hashlib.md5(json.dumps([sig, call], sort_keys=True).encode()).hexdigest(), 16)
        if tier == "thorough" or h % 3 == 0:
            forms += ["shorthand", "spread", "body"]
        for form in forms:
            ctx = {"ck": 1}
            for a in ("p", "q", "z"):
                ctx[a] = VAL[sup[a]] if (a in sup and form == "shorthand") else "C" + a
            body_text = "U"
            if form == "inline":
                callsrc = "{{<c " + " ".join("%s=%s" % (a, LIT[k]) for a, k in sorted(sup.items())) + " />}}"
            elif form == "shorthand":
                callsrc = "{{<c " + " ".join(sorted(sup)) + " />}}"
            elif form == "spread":
                ctx["o"] = {a: VAL[k] for a, k in sup.items()}
                callsrc = "{{<c {...o} />}}"
            elif form == "body":
                callsrc = "{% <c " + " ".join("%s=%s" % (a, LIT[k]) for a, k in sorted(sup.items())) + "> %}B[{{ ck }}{{ d }}]<{% </c> %}"
                ctx["d"] = "&"
                body_text = "B[1&amp;]<"
            if form.startswith("api"):
                # through the API the body is a ready text ("" is a body: defined and empty, as for an empty call body)
                st = {"op": "render_component", "name": "c", "auto": True, "ctx": {a: VAL[k] for a, k in sup.items()}, "expect_ae": True}
                if form == "api-empty-body":
                    st["body"], body_text = "", ""
                elif form == "api-body":
                    st["body"], body_text = "B[x]", "B[x]"
                steps = [{"op": "add", "tpls": [comp]}, st]
            else:
                tpl = "{% set cs = 1 %}{% for lv in [1] %}" + callsrc + "{% endfor %}"
                steps = [{"op": "add", "tpls": [comp, ["t.html", tpl]]}, {"op": "render", "name": "t.html", "expect_ae": True}]
            jobs.append({"cfg": {"autoescape": [".html"], "gctx": {"gk": 1}}, "ctx": ctx, "steps": steps})
            meta.append((vi, form, expected(b, body_text) if b["r"] == "ok" else None))
    res = vp.run_jobs(jobs, tag="c05", timeout=3000)
    # I->S on a fixed sixth of the jobs (every job in the thorough tier would take ~5 min; the sample is deterministic)
    sub = [j for i, j in enumerate(jobs) if i % (6 if tier == "quick" else 2) == 0]
    vp.traced(sub, C, "c05-trace", timeout=3000)
    vecs = r.tags["VEC"]
    for (vi, form, exp), rr, job in zip(meta, res, jobs):
        C.count()
        v = vecs[vi]
        C.nontrivial([vi, form])
        x = rr[1]
        key = {"sig": definition(v["sig"])[:60], "call": {a: k for a, k in v["call"].items() if k != "-"}, "form": form}
        if any(y.get("panic") or y.get("abort") for y in rr):
            C.violation(dict(key, kind="panic"), "panic: %s" % key, {"job": job, "result": rr})
        elif not rr[0].get("ok"):
            C.violation(dict(key, kind="rejected"), "definition refused: %s: %s" % (job["steps"][0]["tpls"], (rr[0].get("msg") or rr[0].get("disp", ""))[:150]), {"job": job})
        elif exp is None:
            if x.get("ok"):
                C.violation(dict(key, kind="noerr"), "call %s of %s (%s) must be refused (%s) but renders %r" % (key["call"], key["sig"], form, v["b"]["errs"], x.get("out")), {"job": job, "got": x})
        elif not x.get("ok") or x.get("out") != exp:
            C.violation(dict(key, kind="binding"), "call %s of %s (%s): engine %s, statement %r" % (
                key["call"], key["sig"], form, repr(x.get("out")) if x.get("ok") else "error: " + (x.get("msg") or x.get("disp", ""))[:120], exp), {"job": job, "expected": exp, "got": x})
    # ---- prefix priority (vectors from Components!PrioVectors) and recursion families
    types(C, r.tags["TYPES"][0])
    extra(C, r.tags.get("PRIO", []))
    bodies(C)
    k = len(meta) // 2
    C.sample({"definition": definition(vecs[meta[k][0]]["sig"])[:120], "call": vecs[meta[k][0]]["call"], "form": meta[k][1], "expected": meta[k][2]})
    C.assumptions += ["type-checking of a declared default against its declared type is not demanded", "which refusal is reported when several apply is not demanded",
                      "the value of the nesting limit is measured, only its existence, monotonicity and path independence are required"]
    return C.finish()


KINDVAL = {"str": "s", "safe-str": {"$safe": "s"}, "i64": {"$i64": "3"}, "u64": {"$u64": "3"}, "i128": {"$i128": "3"}, "u128": {"$u128": "3"}, "float": {"$f64": "2.5"},
           "bool": True, "arr": [1], "map": {"a": 1}, "bytes": {"$bytes": [65]}}
DEFLIT = {"str": '"d"', "int": "1", "float": "1.5", "bool": "true", "arr": "[1]", "map": "{'a': 1}"}


def types(C, tab):
    """The type table of Components.tla: declared type (or the type a default implies, or a declared type next to a default of
    another numeric kind) x value kind, through an inline call, a call with the value in a spread, and the API."""
    jobs, meta = [], []
    def case(sigtxt, kind, want, what):
        comp = "{% component c(" + sigtxt + ") %}ok{% endcomponent c %}"
        v = KINDVAL[kind]
        jobs.append({"cfg": {}, "ctx": {"v": v, "o": {"p": v}}, "steps": [{"op": "add", "tpls": [["c.html", comp], ["t.html", "{{<c p={v} />}}"], ["s.html", "{{<c {...o} />}}"]]},
                                                                            {"op": "render", "name": "t.html"}, {"op": "render", "name": "s.html"},
                                                                            {"op": "render_component", "name": "c", "auto": True, "ctx": {"p": v}}, {"op": "compdef", "name": "c"}]})
        meta.append((sigtxt, kind, want, what))
    for ty, row in tab["declared"].items():
        for kind, want in row.items():
            case("p: " + ty, kind, want, "declared")
    for dk, row in tab["inferred"].items():
        for kind, want in row.items():
            case("p=" + DEFLIT[dk], kind, want, "inferred")
    for ty, rows in tab["both"].items():
        for dk, row in rows.items():
            for kind, want in row.items():
                case("p: %s = %s" % (ty, DEFLIT[dk]), kind, want, "declared-next-to-default")
    for (sigtxt, kind, want, what), rr, job in zip(meta, vp.run_jobs(jobs, tag="c05-types"), jobs):
        C.count(3)
        C.nontrivial(["types", sigtxt, kind])
        key = {"kind": "type-table", "sig": sigtxt, "value": kind}
        if any(x.get("panic") or x.get("abort") for x in rr) or not rr[0].get("ok"):
            C.violation(dict(key, kind="type-setup"), "component c(%s): %s" % (sigtxt, [x for x in rr if not x.get("ok")][:1]), {"job": job})
            continue
        for x, form in zip(rr[1:4], ("inline call", "spread", "render_component")):
            if bool(x.get("ok")) != want:
                C.violation(dict(key, form=form), "component c(%s) called (%s) with a %s value: engine %s, the type %s it" % (
                    sigtxt, form, kind, "accepts" if x.get("ok") else "refuses (%s)" % (x.get("msg") or x.get("disp", ""))[:90], "accepts" if want else "refuses"), {"job": job})


def bodies(C):
    """MC_Body: what a call body contains x where the component prints it x escaping modes of caller and component"""
    r = vp.tlc("MC_Body", "MC_Body", workers=4, timeout=600, name="c05-body")
    C.add_tlc(r, "MC_Body")
    PSRC = {"text": "<b>T&</b>", "data": "{{ d }}", "safe": "{{ d | safe }}", "cond": "{% if 1 %}<i>{% endif %}",
            "loop": "{% for x in ['<', '>'] %}{{ x }}<u>{% endfor %}", "call": "{{<inn v={d} />}}"}
    WDEF = {"direct": "[{{ body }}]", "include-html": "[{% include 'part.html' %}]", "include-txt": "[{% include 'part.txt' %}]",
            "forward": "{% <inner> %}{{ body }}{% </inner> %}", "set": "{% set b2 = body %}[{{ b2 }}]", "twice": "[{{ body }}|{{ body }}]"}
    jobs, meta = [], []
    for v in r.tags["VEC"]:
        csfx = ".html" if v["callerAE"] else ".txt"
        wsfx = ".html" if v["compAE"] else ".txt"
        bsrc = "".join(PSRC[p] for p in v["body"])
        call = "{% <w" + (' a="1"' if v["attrs"] else "") + "> %}" + bsrc + "{% </w> %}"
        tpls = [["w" + wsfx, "{% component w(a=\"x\") %}" + WDEF[v["via"]] + "{% endcomponent w %}{% component inner() %}[{{ body }}]{% endcomponent inner %}"],
                ["inn" + csfx, "{% component inn(v) %}(in:{{ v }}){% endcomponent inn %}"],
                ["part.html", "{{ body }}"], ["part.txt", "{{ body }}"], ["t" + csfx, call],
                # the same call from a block of a child, from an included template and from inside another component's body
                ["base" + csfx, "{% block k %}{% endblock %}"], ["child" + csfx, "{% extends 'base" + csfx + "' %}{% block k %}" + call + "{% endblock %}"],
                ["host" + csfx, "{% include 't" + csfx + "' %}"]]
        steps = [{"op": "add", "tpls": tpls}] + [{"op": "render", "name": n + csfx} for n in ("t", "child", "host")] + \
                [{"op": "render_str", "src": call, "auto": v["callerAE"]},
                 {"op": "render_component", "name": "w", "auto": v["compAE"], "body": v["bt"], "ctx": {"a": "1"} if v["attrs"] else {}}]
        jobs.append({"cfg": {"autoescape": [".html"]}, "ctx": {"d": "<d>&\"'"}, "steps": steps})
        meta.append(v)
    res = vp.run_jobs(jobs, tag="c05-body", timeout=1200)
    for v, rr, job in zip(meta, res, jobs):
        key = {"kind": "body", "body": v["body"], "via": v["via"], "attrs": v["attrs"], "callerAE": v["callerAE"], "compAE": v["compAE"]}
        C.nontrivial(["body", v["body"], v["via"], v["attrs"], v["callerAE"], v["compAE"]])
        if any(y.get("panic") or y.get("abort") for y in rr):
            C.violation(dict(key, kind="body-panic"), "panic: %s" % key, {"job": job, "result": rr})
            continue
        if not rr[0].get("ok"):
            C.violation(dict(key, kind="body-rejected"), "templates refused: %s" % (rr[0].get("msg") or rr[0].get("disp", ""))[:200], {"job": job})
            continue
        api = rr[5]
        for site, x in zip(("template", "block of a child", "included template", "render_str", "render_component"), rr[1:]):
            C.count()
            if not v["uniform"]:
                # mixed escaping modes: only the agreement of the template call with the API is demanded
                if site != "render_component" and (bool(x.get("ok")) != bool(api.get("ok")) or x.get("out") != api.get("out")):
                    C.violation(dict(key, site=site, kind="body-api"), "call body %s printed by the component (%s; caller %s, component %s; call from %s): engine %s, but render_component given the same body %r gives %s" % (
                        v["body"], v["via"], "autoescaped" if v["callerAE"] else "not autoescaped", "autoescaped" if v["compAE"] else "not autoescaped", site,
                        repr(x.get("out")) if x.get("ok") else "an error", v["bt"], repr(api.get("out")) if api.get("ok") else "an error"), {"job": job, "got": x, "api": api})
                continue
            if not x.get("ok") or x.get("out") != v["out"]:
                C.violation(dict(key, site=site), "call body %s printed by the component (%s; caller %s, component %s; call from %s): engine %s, statement %r" % (
                    v["body"], v["via"], "autoescaped" if v["callerAE"] else "not autoescaped", "autoescaped" if v["compAE"] else "not autoescaped", site,
                    repr(x.get("out")) if x.get("ok") else "error: " + (x.get("msg") or x.get("disp", ""))[:150], v["out"]), {"job": job, "expected": v["out"], "got": x})


def extra(C, prio):
    jobs, meta = [], []
    # definitions in lexicographic order of their template names (a.., m.., z..), priorities as the vector says
    for pv in prio:
        v = pv["v"]
        letters = ["a", "m", "z"]
        names, prefixes = [], {}
        for i, x in enumerate(v):
            if x == -1:
                names.append(None)
            elif x == 0:
                names.append(letters[i] + "-exact.html")
            else:
                prefixes[x] = letters[i] + "%d/" % x
                names.append(prefixes[x] + "c.html")
        plist = [prefixes[k] for k in sorted(prefixes)]
        tpls = [[n, "{% component k() %}from " + n + "{% endcomponent k %}"] for n in names if n] + [["use", "{{<k/>}}"]]
        for order in (tpls, list(reversed(tpls))):
            jobs.append({"cfg": {"prefixes": plist}, "steps": [{"op": "add", "tpls": order}, {"op": "render", "name": "use"}, {"op": "render_component", "name": "k", "auto": False}]})
            meta.append(("prio", v, ("from " + names[pv["o"]["owner"] - 1]) if pv["o"]["r"] == "ok" else None))
        # the call site does not matter: every defining template also CALLS k (from its body and from a second component it
        # defines), and an include of a defining template is rendered from `use`: always the highest-priority definition
        if pv["o"]["r"] == "ok":
            win = "from " + names[pv["o"]["owner"] - 1]
            defs = [n for n in names if n]
            tpls2 = [[n, "{% component k() %}from " + n + "{% endcomponent k %}{% component w" + str(i) + "() %}w{{<k/>}}{% endcomponent w" + str(i) + " %}{{<k/>}}|{{<w" + str(i) + "/>}}"]
                     for i, n in enumerate(defs)] + [["use", "".join("{% include '" + n + "' %};" for n in defs)]]
            steps = [{"op": "add", "tpls": tpls2}] + [{"op": "render", "name": n} for n in defs] + [{"op": "render", "name": "use"}] + \
                    [{"op": "render_component", "name": "w%d" % i, "auto": False} for i in range(len(defs))]
            jobs.append({"cfg": {"prefixes": plist}, "steps": steps})
            meta.append(("prio-sites", v, [win + "|w" + win] * len(defs) + ["".join(win + "|w" + win + ";" for _ in defs)] + ["w" + win] * len(defs)))
    # the same component under several fallback prefixes: the highest-priority definition is used
    for present in (["A"], ["p/A"], ["q/A"], ["A", "p/A"], ["p/A", "q/A"], ["A", "q/A"], ["A", "p/A", "q/A"], ["q/A", "p/A", "A"]):
        tpls = [[n, "{% component k() %}from " + n + "{% endcomponent k %}"] for n in present] + [["use", "{{<k/>}}"]]
        want = "from " + min(present, key=lambda n: {"A": 0, "p/A": 1, "q/A": 2}[n])
        for order in (tpls, list(reversed(tpls))):
            jobs.append({"cfg": {"prefixes": ["p/", "q/"]}, "steps": [{"op": "add", "tpls": order}, {"op": "render", "name": "use"}, {"op": "render_component", "name": "k", "auto": False}]})
            meta.append(("priority", present, want))
    jobs.append({"cfg": {"prefixes": ["p/"]}, "steps": [{"op": "add", "tpls": [["A", "{% component k() %}1{% endcomponent k %}"], ["B", "{% component k() %}2{% endcomponent k %}"]]}]})
    meta.append(("duplicate", ["A", "B"], None))
    # recursion: depth d through four paths
    fams = {
        "self": [["r", "{% component r(n: integer) %}{{ n }}{% if n > 0 %}{{<r n={n - 1} />}}{% endif %}{% endcomponent r %}"]],
        "mutual": [["r", "{% component r(n: integer) %}{{ n }}{% if n > 0 %}{{<s n={n - 1} />}}{% endif %}{% endcomponent r %}"
                         "{% component s(n: integer) %}{{ n }}{% if n > 0 %}{{<r n={n - 1} />}}{% endif %}{% endcomponent s %}"]],
        "include": [["r", "{% component r(n: integer) %}{{ n }}{% if n > 0 %}{% include 'i' %}{% endif %}{% endcomponent r %}"], ["i", "{{<r n={n - 1} />}}"]],
        "body": [["r", "{% component r(n: integer) %}{{ n }}{% if n > 0 %}{% <w> %}{{<r n={n - 1} />}}{% </w> %}{% endif %}{% endcomponent r %}{% component w() %}{{ body }}{% endcomponent w %}"]],
    }
    depths = list(range(1, 45))
    for fam, tpls in fams.items():
        for d in depths:
            jobs.append({"cfg": {}, "ctx": {}, "steps": [{"op": "add", "tpls": tpls + [["t", "{{<r n={%d} />}}" % (d - 1)]]}, {"op": "render", "name": "t"}], "may_abort": 1})
            meta.append(("depth", fam, d))
        jobs.append({"cfg": {}, "steps": [{"op": "add", "tpls": [["u", "{% component u() %}x{{<u/>}}{% endcomponent u %}{{<u/>}}"]]}, {"op": "render", "name": "u"}]})
        meta.append(("unbounded", fam, None))
    res = vp.run_jobs(jobs, tag="c05-extra", timeout=1200, may_abort=True)
    limits = {}
    for (kind, a, b), rr, job in zip(meta, res, jobs):
        C.count()
        C.nontrivial([kind, a, b])
        if any(y.get("panic") or y.get("abort") for y in rr):
            C.violation({"kind": "abort", "family": kind, "a": str(a), "b": b}, "process died or panicked: %s %s %s" % (kind, a, b), {"job": job, "result": rr})
            continue
        if kind == "prio":
            if b is None:
                if rr[0].get("ok"):
                    C.violation({"kind": "prio-conflict", "v": a}, "two definitions of a component at the best priority (vector %s) were accepted" % a, {"job": job})
            else:
                for x in rr[1:]:
                    if not x.get("ok") or x.get("out") != b:
                        C.violation({"kind": "prio", "v": a}, "component defined at priorities %s (in name order; -1 absent, 0 exact name, k = k-th prefix): engine uses %r, the highest-priority definition is %r" % (
                            a, x.get("out") if x.get("ok") else x.get("kind"), b), {"job": job})
        elif kind == "prio-sites":
            for x, want, st in zip(rr[1:], b, job["steps"][1:]):
                if not x.get("ok") or x.get("out") != want:
                    C.violation({"kind": "prio-site", "v": a, "site": st.get("name")}, "component defined at priorities %s, called from %s %s: engine gives %r, with the highest-priority definition it is %r" % (
                        a, st["op"], st.get("name"), x.get("out") if x.get("ok") else (x.get("msg") or x.get("disp", ""))[:100], want), {"job": job})
        elif kind == "priority":
            for x in rr[1:]:
                if not x.get("ok") or x.get("out") != b:
                    C.violation({"kind": "priority", "present": a}, "component defined in %s: engine uses %r, the highest-priority definition is %r" % (a, x.get("out"), b), {"job": job})
        elif kind == "duplicate":
            if rr[0].get("ok"):
                C.violation({"kind": "duplicate"}, "two definitions of a component at equal priority were accepted", {"job": job})
        elif kind == "unbounded":
            if rr[1].get("ok"):
                C.violation({"kind": "unbounded"}, "unbounded component recursion rendered successfully", {"job": job})
        else:
            limits.setdefault(a, {})[b] = rr[1].get("ok")
            if rr[1].get("ok"):
                want = "".join(str(i) for i in range(b - 1, -1, -1))
                if rr[1].get("out") != want:
                    C.violation({"kind": "recursion-text", "family": a, "depth": b}, "recursion %s depth %d renders %r, expected %r" % (a, b, rr[1].get("out"), want), {"job": job})
    thresholds = {}
    for fam, m in limits.items():
        oks = [d for d, ok in sorted(m.items()) if ok]
        bad = [d for d, ok in sorted(m.items()) if not ok]
        L = max(oks) if oks else 0
        thresholds[fam] = L
        if not bad:
            C.violation({"kind": "no-limit", "family": fam}, "no nesting limit observed up to depth %d through %s" % (max(m), fam), {"limits": m})
        elif any(d < L for d in bad):
            C.violation({"kind": "non-monotone", "family": fam}, "recursion through %s is not monotone: fails at %s but renders at %d" % (fam, [d for d in bad if d < L], L), {"limits": m})
    # the body path nests two components per level; the others one: the limit counts components
    base = {f: t for f, t in thresholds.items() if f != "body"}
    if len(set(base.values())) > 1:
        C.violation({"kind": "path-dependent-limit"}, "the nesting limit depends on the path: %s" % thresholds, {"thresholds": thresholds})
    C.cov["measured_nesting_limit"] = thresholds


def replay(path):
    d = json.load(open(path))
    print(json.dumps(vp.run_jobs([d["replay"]["job"]], tag="replay"), indent=1)[:3000], "\nexpected:", d["replay"].get("expected"))
    return 0
