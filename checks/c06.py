"""C06 — registering any source text ends in Ok or Err: no panic, hang or stack overflow.

M    TLC (MC_ParserDepth): a pushdown model of parser/compiler recursion with the counters the code keeps; invariant
     DepthBounded (live frames <= B whatever the input length).  With chain productions counted the invariant holds; the
     configuration of the pinned code (MC_ParserDepth_pinned.cfg, chains not counted) violates it: the model names the
     shapes that drive unbounded recursion.  The model's prediction for every (shape, n) of the ladder is emitted.
S→I  every shape (23 nested productions, 8 chain productions) at sizes 1, 2, 39, 40, 41, 100, 400, 10^3, 10^4, 10^5 through
     add_raw_templates (and render_str for the small ones) in a watched process: the process must survive, the result is
     Ok or a syntax error, rejection is monotone in n, nested shapes are refused beyond a measured limit <= B, and the
     recursion gauge (cfg(tera_verif) hook: live parser/compiler frames) stays <= B.
     (MC_Atoms) every sequence of <= MaxAtoms lexical atoms (delimiters, half delimiters, `-`, quotes, unterminated
     constructs, multi-byte characters next to delimiters, huge numbers, keywords, operators) under three delimiter sets."""
import json
import vp
from c08 import DSETS

ATOMS = ["{{", "}}", "{%", "%}", "{#", "#}", "{", "}", "%", "#", "-", "{{-", "-}}", "{%-", "-%}", " ", "\n", "x", "1", "99999999999999999999999999999999999999999",
         "1.5e999", "'", '"', "`", "'a", "é", "世", "\U0001F600", "if", "endif", "for", "in", "raw", "endraw", "set", "=", "|", ".", "[", "]", "(", ")", "block", "<c/>"]

# atoms of the expression context: every sequence of <= 3 of them is placed inside `{{ .. }}` and `{% if .. %}`
INTAG = ["-", " ", "é", "世", "\U0001F600", "1", "a", "'", '"', "€", ".", "|", "(", ")", "[", "]", "~", "not ", "-1", "%", "}", "*"]
COMP = "{% component c() %}{{ body }}{% endcomponent c %}"


def shape_src(shape, n):
    if shape == "paren":
        return "{{ " + "(" * n + "1" + ")" * n + " }}"
    if shape == "array":
        return "{{ " + "[" * n + "1" + "]" * n + " }}"
    if shape == "map":
        return "{{ " + '{"a": ' * n + "1" + "}" * n + " }}"
    if shape == "subscript":
        return "{{ " + "a[" * n + "0" + "]" * n + " }}"
    if shape == "call_args":
        return "{{ " + "range(end=" * n + "1" + ")" * n + " }}"
    if shape == "not":
        return "{{ " + "not " * n + "1 }}"
    if shape == "neg":
        return "{{ " + "- " * n + "1 }}"
    if shape == "ternary":
        return "{{ " + "1 if 0 else " * n + "2 }}"
    if shape == "pow":
        return "{{ 1" + " ** 1" * n + " }}"
    if shape == "if":
        return "{% if 1 %}" * n + "x" + "{% endif %}" * n
    if shape == "for":
        return "{% for i in [1] %}" * n + "x" + "{% endfor %}" * n
    if shape == "filter_section":
        return "{% filter upper %}" * n + "x" + "{% endfilter %}" * n
    if shape == "set_block":
        return "{% set v %}" * n + "x" + "{% endset %}" * n
    if shape == "block":
        return "".join("{%% block b%d %%}" % i for i in range(n)) + "x" + "{% endblock %}" * n
    if shape == "component_body":
        return COMP + "{% <c> %}" * n + "x" + "{% </c> %}" * n
    if shape == "comprehension":
        return "{{ " + "[x for x in " * n + "[1]" + "]" * n + " }}"
    COMPA = "{% component a(p=1, ...rest) %}x{% endcomponent a %}"
    if shape == "component_spread":
        return COMPA + "{{ " + "<a {..." * n + "m" + "} />" * n + " }}"
    if shape == "component_attr":
        return COMPA + "{{ " + "<a p={" * n + "1" + "} />" * n + " }}"
    if shape == "map_spread":
        return "{{ " + "{..." * n + "m" + "} " * n + " }}"
    if shape == "filter_arg":
        return "{{ " + "1 | default(value=" * n + "1" + ")" * n + " }}"
    if shape == "test_arg":
        return "{{ " + "1 is divisible_by(divisor=" * n + "1" + ")" * n + " }}"
    if shape == "slice_bound":
        return "{{ " + "a[" * n + "0" + ":]" * n + " }}"
    if shape == "opt_subscript":
        return "{{ " + "a?[" * n + "0" + "]" * n + " }}"
    if shape == "lit_subscript":
        return "{{ " + "1[" * n + "0" + "]" * n + " }}"
    if shape == "str_subscript":
        return "{{ " + "'ab'[" * n + "0" + "]" * n + " }}"
    if shape == "call_subscript":
        return "{{ " + "range(end=3)[" * n + "0" + "]" * n + " }}"
    if shape == "paren_subscript":
        return "{{ " + "(a)[" * n + "0" + "]" * n + " }}"
    if shape == "array_subscript":
        return "{{ " + "[1][" * n + "0" + "]" * n + " }}"
    if shape == "mixed_subscript":
        return "{{ " + "".join("a[" if i % 2 == 0 else "1[" for i in range(n)) + "0" + "]" * n + " }}"
    if shape == "lit_slice_bound":
        return "{{ " + "1[:" * n + "0" + "]" * n + " }}"
    if shape == "alt_paren_subscript":
        return "{{ " + "".join("a[" if i % 2 == 0 else "(" for i in range(n)) + "0" + "".join("]" if i % 2 == 0 else ")" for i in reversed(range(n))) + " }}"
    if shape == "alt_array_map":
        return "{{ " + "".join("[" if i % 2 == 0 else '{"a": ' for i in range(n)) + "1" + "".join("]" if i % 2 == 0 else "}" for i in reversed(range(n))) + " }}"
    if shape == "alt_call_array":
        return "{{ " + "".join("range(end=" if i % 2 == 0 else "[" for i in range(n)) + "1" + "".join(")" if i % 2 == 0 else "]" for i in reversed(range(n))) + " }}"
    if shape == "alt_neg_paren":
        return "{{ " + "".join("-" if i % 2 == 0 else "(" for i in range(n)) + "1" + "".join("" if i % 2 == 0 else ")" for i in reversed(range(n))) + " }}"
    if shape == "alt_not_paren":
        return "{{ " + "".join("not " if i % 2 == 0 else "(" for i in range(n)) + "1" + "".join("" if i % 2 == 0 else ")" for i in reversed(range(n))) + " }}"
    if shape == "alt_ternary_paren":
        return "{{ " + "".join("1 if 0 else " if i % 2 == 0 else "(" for i in range(n)) + "2" + "".join("" if i % 2 == 0 else ")" for i in reversed(range(n))) + " }}"
    if shape == "alt_filter_arg_subscript":
        return "{{ " + "".join("1 | default(value=" if i % 2 == 0 else "a[" for i in range(n)) + "0" + "".join(")" if i % 2 == 0 else "]" for i in reversed(range(n))) + " }}"
    if shape == "alt_if_for":
        return "".join("{% if 1 %}" if i % 2 == 0 else "{% for i in [1] %}" for i in range(n)) + "x" + "".join("{% endif %}" if i % 2 == 0 else "{% endfor %}" for i in reversed(range(n)))
    if shape == "alt_set_filter_section":
        return "".join("{% set v %}" if i % 2 == 0 else "{% filter upper %}" for i in range(n)) + "x" + "".join("{% endset %}" if i % 2 == 0 else "{% endfilter %}" for i in reversed(range(n)))
    if shape == "alt_comprehension_paren":
        return "{{ " + "".join("[x for x in " if i % 2 == 0 else "(" for i in range(n)) + "[1]" + "".join("]" if i % 2 == 0 else ")" for i in reversed(range(n))) + " }}"
    if shape == "elif":
        return "{% if 0 %}a" + "{% elif 0 %}a" * n + "{% endif %}"
    if shape == "binop":
        return "{{ 1" + " + 1" * n + " }}"
    if shape == "and_or":
        return "{{ 1" + " and 1" * n + " }}"
    if shape == "filter":
        return "{{ 1" + " | abs" * n + " }}"
    if shape == "attribute":
        return "{{ a" + ".b" * n + " }}"
    if shape == "subscript_chain":
        return "{{ a" + "[0]" * n + " }}"
    if shape == "test":
        return "{{ 1" + " is defined" * n + " }}"
    if shape == "concat":
        return "{{ 'a'" + " ~ 'a'" * n + " }}"
    raise ValueError(shape)


def run(tier):
    C = vp.Check("C06", tier, "exploration")
    r = vp.tlc("MC_ParserDepth", "MC_ParserDepth", workers=4, timeout=600, name="c06-depth")
    C.add_tlc(r, "MC_ParserDepth (chains counted: DepthBounded holds)")
    rp = vp.tlc("MC_ParserDepth", "MC_ParserDepth_pinned", workers=4, timeout=600, name="c06-pinned", allow_fail=True)
    C.add_tlc(rp, "MC_ParserDepth_pinned (chains not counted)")
    model_unbounded = (not rp.ok) and rp.violated == "DepthBounded"
    C.cov["model_says_chains_unbounded_in_pinned_code"] = model_unbounded
    B = 400
    preds = {v["shape"]: v for v in r.tags["VEC"]}
    big = [1000, 10000, 100000] if tier == "thorough" else [1000, 20000]
    jobs, meta = [], []
    for shape, v in sorted(preds.items()):
        ladder = sorted(int(n) for n in v["p"].keys()) + big
        for n in ladder:
            src = shape_src(shape, n)
            steps = [{"op": "add", "tpls": [["t", src]]}]
            if n <= 100:
                steps.append({"op": "render_str", "src": src, "auto": False})
            jobs.append({"cfg": {}, "ctx": {"a": {"b": 1}}, "steps": steps})
            meta.append((shape, n, v["nested"]))
    res = vp.run_jobs(jobs, tag="c06-shapes", timeout=600, may_abort=True)
    outcome = {}
    for (shape, n, nested), rr, job in zip(meta, res, jobs):
        C.count()
        C.nontrivial([shape, n])
        key = {"shape": shape, "n": n}
        x = rr[0]
        if any(y.get("abort") for y in rr):
            C.violation(dict(key, kind="abort"), "the process died (stack overflow / abort / hang, rc=%s) registering a %s of size %d" % ([y.get("rc") for y in rr if y.get("abort")], shape, n),
                        {"shape": shape, "n": n, "src_head": job["steps"][0]["tpls"][0][1][:120]})
            outcome.setdefault(shape, {})[n] = "abort"
            continue
        if any(y.get("panic") for y in rr):
            C.violation(dict(key, kind="panic"), "panic registering/rendering a %s of size %d: %s" % (shape, n, [y.get("msg") for y in rr if y.get("panic")]), {"shape": shape, "n": n})
            continue
        outcome.setdefault(shape, {})[n] = "ok" if x.get("ok") else "rejected"
        if not x.get("ok") and x.get("kind") not in ("SyntaxError", "Msg"):
            C.violation(dict(key, kind="errkind"), "unexpected error kind %s for a %s of size %d" % (x.get("kind"), shape, n), {"result": x})
        g = x.get("gauge", 0)
        if nested and g > B:
            C.violation(dict(key, kind="gauge"), "nested %s of size %d: %d live recursive frames (> %d)" % (shape, n, g, B), {"result": x})
    limits = {}
    for shape, m in outcome.items():
        ns = sorted(m)
        oks = [n for n in ns if m[n] == "ok"]
        rej = [n for n in ns if m[n] == "rejected"]
        if rej and oks and max(oks) > min(rej):
            C.violation({"kind": "non-monotone", "shape": shape}, "%s: accepted at size %d but refused at the smaller size %d" % (shape, max(oks), min(rej)), {"outcomes": m})
        limits[shape] = max(oks) if oks else 0
        if preds[shape]["nested"] and oks and max(oks) > B:
            C.violation({"kind": "no-limit", "shape": shape}, "nested %s still accepted at size %d (> %d): no nesting limit" % (shape, max(oks), B), {"outcomes": m})
    C.cov["largest_size_accepted_per_shape"] = limits
    # ---- the lexical-atom space
    maxatoms = 2 if tier == "quick" else 3
    with open(vp.SPEC + "/MC_Atoms_run.cfg", "w") as f:
        f.write(open(vp.SPEC + "/MC_Atoms.cfg").read().replace("NAtoms = 44", "NAtoms = %d" % len(ATOMS)).replace("MaxAtoms = 2", "MaxAtoms = %d" % maxatoms))
    ra = vp.tlc("MC_Atoms", "MC_Atoms_run", workers=4, timeout=3000, name="c06-atoms", xmx="16g")
    C.add_tlc(ra, "MC_Atoms (sequences of <= %d of %d atoms)" % (maxatoms, len(ATOMS)))
    ajobs, ameta = [], []
    for seq in ra.tags["VEC"]:
        for ds, d in DSETS.items():
            src = "".join(ATOMS[i - 1] for i in seq)
            if ds != "default":
                for a, b in zip(DSETS["default"], d):
                    src = src.replace(a, "\x00" + str(DSETS["default"].index(a)))
                for i, b in enumerate(d):
                    src = src.replace("\x00" + str(i), b)
            ajobs.append({"cfg": {"delims": d}, "steps": [{"op": "add", "tpls": [["t", src]]}, {"op": "render_str", "src": src, "auto": True}]})
            ameta.append((seq, ds, src))
    # the same enumeration (MC_Atoms) over the expression-context atoms, inside tags
    with open(vp.SPEC + "/MC_Atoms_run.cfg", "w") as f:
        f.write(open(vp.SPEC + "/MC_Atoms.cfg").read().replace("NAtoms = 44", "NAtoms = %d" % len(INTAG)).replace("MaxAtoms = 2", "MaxAtoms = 3"))
    ri = vp.tlc("MC_Atoms", "MC_Atoms_run", workers=4, timeout=3000, name="c06-intag", xmx="16g")
    C.add_tlc(ri, "MC_Atoms (sequences of <= 3 of %d expression-context atoms)" % len(INTAG))
    for seq in ri.tags["VEC"]:
        body = "".join(INTAG[i - 1] for i in seq)
        for ds, d in (("default", DSETS["default"]), ("multibyte", DSETS["multibyte"])):
            for src in (d[2] + " a" + body + " " + d[3], d[2] + body + d[3], d[0] + " if 1" + body + " " + d[1] + "x" + d[0] + " endif " + d[1]):
                ajobs.append({"cfg": {"delims": d}, "steps": [{"op": "add", "tpls": [["t", src]]}]})
                ameta.append((seq, ds, src))
    # registration builds its reports eagerly (unknown filter / test / function / component / include target, missing parent,
    # orphan block): references that wrap onto a shorter / longer / empty next line, after multi-byte text; and template
    # sets whose extends / include cycle only closes through a fallback prefix, odd names
    pad = "xxxxxxxxxxxxxxxxxxxxxxxx é世 "
    for ref in ("{{ a | nofilter(x=1,\n y=2) }}", "{{ a is notest(x=1,\n y=2) }}", "{{ nofn(x=1,\n y=2) }}", "{{<nocomp a=1\n b=2 />}}", "{% include\n 'nope' %}",
                "{% <nocomp\n> %}x{% </nocomp> %}", "{{ a | nofilter(x=1,\n\n\n y=2) }}", "{{ a\n| nofilter }}", "{{ a | nofilter(x='\n') }}",
                "{{ a | nofilter(x=1,\n" + " " * 60 + "y=2) }}"):
        for src in (pad + ref, pad + ref + "\ntail", "\n\n" + pad + ref, "{% block b %}" + pad + ref + "{% endblock %}",
                    "{% component K() %}" + pad + ref + "{% endcomponent K %}"):
            ajobs.append({"cfg": {}, "steps": [{"op": "add", "tpls": [["t", src]]}, {"op": "render_str", "src": src, "auto": True}]})
            ameta.append((["multi-line reference"], "default", src))
    for tpls in ([["p/base", "{% extends 'base' %}"]], [["p/base", "{% extends 'mid' %}"], ["mid", "{% extends 'base' %}"]],
                 [["p/a", "{% include 'a' %}"]], [["p/a", "{% include 'b' %}"], ["q/b", "{% include 'a' %}"]],
                 [["p/base", pad + "\n{% extends\n 'nope' %}"]], [["c", "{% extends 'p' %}{% block\n zz %}{% endblock %}"], ["p", "P"]],
                 [["", "x"], ["é", "{% include '' %}"]], [["a'b", "x"], ["t", "{% include \"a'b\" %}"]], [["x" * 5000, "{% extends '" + "x" * 5000 + "' %}"]]):
        for order in (tpls, list(reversed(tpls))):
            ajobs.append({"cfg": {"prefixes": ["p/", "q/"]}, "steps": [{"op": "add", "tpls": order}] + [{"op": "render", "name": n} for n, _ in order]})
            ameta.append((["names and prefixes"], "default", json.dumps(order)[:300]))
    # every extends/include digraph over three templates, one of them reachable only through a fallback prefix (MC_Graph,
    # the enumeration C11 decides): here only "registration and rendering come back"
    import registry_glue as RG
    with open(vp.SPEC + "/MC_Graph_run.cfg", "w") as f:
        f.write(open(vp.SPEC + "/MC_Graph.cfg").read().replace('Place = "all"', 'Place = "body"'))
    rg = vp.tlc("MC_Graph", "MC_Graph_run", workers=6, timeout=3000, name="c06-graph", xmx="16g")
    C.add_tlc(rg, "MC_Graph N=3, includes in the body (registration must come back)")
    for v in rg.tags["VEC"]:
        tpls = [[n, RG.src(n, d, compname="k")] for n, d in sorted(v["g"].items())]
        ajobs.append({"cfg": {"prefixes": ["p/"]}, "steps": [{"op": "add", "tpls": tpls}] + ([{"op": "render", "name": n} for n, _ in tpls] if v["ok"] else [])})
        ameta.append((["graph"], "default", json.dumps(tpls)[:300]))
    # component signatures: every sequence of <= 3 signature atoms between the parentheses of a component definition
    # (MC_Atoms again), with and without metadata, and as the attributes of a call
    SIG = ["p", "q", ": ", "string", "strng", "number", "= ", "1", "-1", "1.5", "'a'", "[1]", "{}", "{'a': 1}", "none", "true", ", ", "...rest", "...", ":", "=", "p, p", "(", ")", "é"]
    with open(vp.SPEC + "/MC_Atoms_run.cfg", "w") as f:
        f.write(open(vp.SPEC + "/MC_Atoms.cfg").read().replace("NAtoms = 44", "NAtoms = %d" % len(SIG)).replace("MaxAtoms = 2", "MaxAtoms = 3"))
    rs = vp.tlc("MC_Atoms", "MC_Atoms_run", workers=4, timeout=3000, name="c06-sig", xmx="16g")
    C.add_tlc(rs, "MC_Atoms (sequences of <= 3 of %d component-signature atoms)" % len(SIG))
    for seq in rs.tags["VEC"]:
        body = "".join(SIG[i - 1] for i in seq)
        for src in ("{% component c(" + body + ") %}x{% endcomponent c %}{{<c/>}}", "{% component c(" + body + ") {'k': 1} %}x{% endcomponent %}",
                    "{% component c(p=1, ...rest) %}x{% endcomponent c %}{{<c " + body + " />}}"):
            ajobs.append({"cfg": {}, "steps": [{"op": "add", "tpls": [["t", src]]}, {"op": "render_str", "src": src, "auto": False}, {"op": "compdef", "name": "c"}]})
            ameta.append((seq, "default", src))
    # delimiter sets (MC_Delims): acceptance by set_delimiters as specified; every accepted set then lexes sources in which
    # each delimiter occurs in the middle, at the very end of the input, unterminated, with `-` markers and around raw
    DSTR = {"empty": "", "one": "#", "sq": "[[", "ang": "<%", "guil": "\u00ab", "eacute": "\u00e9", "pct": "%%", "cjk": "\u65e5", "three": "{{{", "emoji": "\U0001F600",
            "bs": "{%", "be": "%}", "vs": "{{", "ve": "}}", "cs": "{#", "ce": "#}"}
    rd = vp.tlc("MC_Delims", "MC_Delims", workers=4, timeout=600, name="c06-delims")
    C.add_tlc(rd, "MC_Delims (delimiter sets differing from the default in <= 2 positions)")
    seen_d = set()
    for v in rd.tags["VEC"]:
        d = [DSTR[x] for x in v["d"]]
        if tuple(d) in seen_d:
            continue
        seen_d.add(tuple(d))
        BS, BE, VS, VE, CS, CE = d
        srcs = ["a " + CS + " c " + CE + " b", "a " + CS + " c " + CE, CS + CE, "a " + CS + " c", "a " + CS, VS + " 1 " + VE, "x" + VS + "1" + VE, VS + " 1", VS,
                BS + " if 1 " + BE + "x" + BS + " endif " + BE, "a " + BS + " if 1 " + BE, BS, "a" + BS + "- raw -" + BE + " r " + BS + "- endraw -" + BE + "b",
                "a " + CS + "- c -" + CE + " b", "\u65e5" + CS + "\u65e5" + CE + "\u65e5", "a" + CE + VE + BE, CS + " " + CE[:1], "a " + VS + "- 1 -" + VE + " \u00e9"]
        # a refused call leaves the instance as it was: it goes on lexing (with the default set), the same sources and some
        # written with the default delimiters
        dflt = ["a {# c #} b {{ 1 + 1 }}{% if 1 %}x{% endif %}", "{# c #}", "a {#- c -#} b", "{% raw %}{{ x }}{% endraw %}"]
        ajobs.append({"cfg": {"delims": d, "delims_soft": True}, "steps": [{"op": "delims_state"}] + [{"op": "render_str", "src": s_, "auto": False} for s_ in srcs + dflt]
                      + [{"op": "add", "tpls": [["t", srcs[0]], ["u", dflt[0]]]}]})
        ameta.append((["delimiter set", v["ok"]], "custom", json.dumps(d)))
    ares = vp.run_jobs(ajobs, tag="c06-atoms", timeout=3000, may_abort=True)
    for (seq, ds, src), rr in zip(ameta, ares):
        C.count()
        C.nontrivial([seq, ds])
        if any(y.get("panic") or y.get("abort") for y in rr):
            C.violation({"kind": "atoms", "src": src, "delims": ds}, "panic/abort on source %r under %s delimiters: %s" % (src, ds, [y.get("msg") or y.get("rc") for y in rr if y.get("panic") or y.get("abort")]),
                        {"src": src, "delims": DSETS.get(ds, src)})
        elif seq[0] == "delimiter set":
            accepted = not rr[0].get("rejected")
            if not accepted and not (rr[-5].get("ok") and rr[-5].get("out") == "a  b 2x" and rr[-4].get("out") == "" and rr[-3].get("out") == "ab" and rr[-2].get("out") == "{{ x }}"):
                C.violation({"kind": "delimiters-after-refusal", "delims": src}, "after set_delimiters refused %s the instance no longer lexes with the default set: %s" % (src, [y.get("out", y.get("msg")) for y in rr[-5:-1]]),
                            {"delims": json.loads(src), "result": rr[-5:]})
            if accepted != seq[1]:
                C.violation({"kind": "delimiter-validation", "delims": src}, "set_delimiters %s the set %s; the rule (six delimiters of exactly 2 bytes, three different start delimiters) %s it" % (
                    "accepts" if accepted else "refuses", src, "accepts" if seq[1] else "refuses"), {"delims": json.loads(src), "result": rr[:1]})
    C.cov["rule"] = ("24 recursion shapes x 9-10 sizes (watched process, gauge hook); all sequences of <= %d of %d lexical atoms x 3 delimiter sets through add and render_str; "
                     "non-trivial = distinct (shape, size) / (atom sequence, delimiter set)" % (maxatoms, len(ATOMS)))
    C.sample({"shape": "binop", "n": 3, "src": shape_src("binop", 3)})
    C.sample({"atoms": [ATOMS[i - 1] for i in ra.tags["VEC"][len(ra.tags["VEC"]) // 2]]})
    C.assumptions += ["TLA+ cannot quantify over all byte strings: totality is decided on the enumerated atom space and the recursion shapes only",
                      "the main thread of the harness has the default 8 MiB stack; hangs are detected by a 10 minute limit on the batch"]
    return C.finish()


def replay(path):
    d = json.load(open(path))["replay"]
    if "shape" in d:
        src = shape_src(d["shape"], d["n"])
        print(json.dumps(vp.run_jobs([{"cfg": {}, "steps": [{"op": "add", "tpls": [["t", src]]}]}], tag="replay", may_abort=True), indent=1)[:1500])
    else:
        print(json.dumps(vp.run_jobs([{"cfg": {"delims": d["delims"]}, "steps": [{"op": "add", "tpls": [["t", d["src"]]]}]}], tag="replay", may_abort=True), indent=1)[:1500])
    return 0
