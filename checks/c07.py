"""C07 — rendering accepted templates never panics; stacks are empty after a render; references are
checked at add time.

MC   TLC (MC_TeraVM) explores every execution of every REAL compiled chunk of the corpus (dumped through
     the listing hook, optimised and as compiled) under all abstract contexts with deadlock checking on:
     no instruction meets a missing operand (deadlock = expect()/unwrap() panic), every error exit has the
     spans it needs (InvErrHasSpan), the stacks are balanced at the end (InvBalanced), jumps stay in range.
S→I  every corpus program is rendered whole / per block / per component over a universe of weird
     concrete values at every free variable: Ok with valid UTF-8 or Err, never a panic or abort.
I→S  every one of those renders is traced and validated against TeraVM on the real listing; the
     leave/halt events must show balanced stacks (BalancedAtLeave).
R    Registry!Accept's reference clause: see c07_refs (missing filter/test/function/component/include/
     parent planted at every syntactic position must be refused at add time, leaving nothing registered)."""
import json, os, re
import vp, corpus
import c09

WEIRD = [
    ("undef", {"$undef": 1}), ("none", None), ("true", True), ("zero", 0), ("neg", -3),
    ("i128min", {"$i128": str(-2**127)}), ("i128max", {"$i128": str(2**127 - 1)}), ("u128max", {"$u128": str(2**128 - 1)}),
    ("nan", {"$f64": "nan"}), ("inf", {"$f64": "inf"}), ("ninf", {"$f64": "-inf"}), ("negzero", {"$f64": "-0.0"}),
    ("empty_str", ""), ("special", "<&\"'>"), ("safe", {"$safe": "<b>"}), ("multibyte", "hé世\U0001F600"), ("chars12_bytes24", "\u0417\u0434\u0440\u0430\u0432\u0441\u0442\u0432\u0443\u0439\u0442\u0435"), ("bytes22", "aaaaaaaaaaaaaaaaaaaa\u00e9"),
    ("bytes_bad", {"$bytes": [0xff, 0xfe, 0x41]}), ("bytes_empty", {"$bytes": []}),
    ("arr_empty", []), ("arr_mixed", [1, "a", None, {"$undef": 1}, [2], {"k": 1}]),
    ("map_empty", {}), ("map_undef", {"a": {"$undef": 1}, "b": {"a": {"$undef": 1}}, "name": "n", "y": 1, "xs": [1]}),
    ("deep", [[[[[[1]]]]]]), ("map_intkeys", {"$map": [[1, "one"], [{"$u128": "1"}, "uone"], [True, "t"], ["s", 2]]}),
    ("long_arr", list(range(40))), ("float", {"$f64": "2.5"}),
]


# what harness/src/main.rs registers under cfg "probes" / "contrib"
PROBE_FILTERS = ["wrap", "wrap_safe", "viacall", "errkind", "read_ctx"]
PROBE_FUNCTIONS = ["mk", "mk_safe", "p"]
CONTRIB_FILTERS = ["b64_encode", "b64_decode", "urlencode", "urlencode_strict", "json_encode", "slug"]


def free_names(tpls):
    names = set()
    for _, src in tpls:
        for m in re.finditer(r"[A-Za-z_][A-Za-z0-9_]*", src):
            names.add(m.group(0))
    return sorted(names)[:60]


def run(tier):
    C = vp.Check("C07", tier, "model_checking")
    C.cov["rule"] = ("chunks: every distinct compiled chunk (main/block/component; optimised and as compiled) of the corpus is one "
                     "TLC initial state; renders: corpus program x weird-value context x {render, render_block, render_component}; "
                     "non-trivial = distinct (program, operation, context) whose trace executes at least one instruction")
    work = vp.workdir("c07")
    snap = corpus.snapshot_jobs(trace=False)
    jumpy = []
    for src in c09.JUMPY:
        for body in (src, "{% block k %}" + src + "{% endblock %}", "{% component C() %}" + src + "{% endcomponent C %}{{<C/>}}"):
            jumpy.append({"tpls": [["j.html", body]], "cfg": {"probes": True}, "src": body, "entry": "j.html", "ctx": {}})
    # jumps out of a capture: the parser refuses break/continue that would leave a set block / filter section / component
    # body, because the jump would skip the instruction closing the capture.  Whatever of these IS accepted gets rendered
    # and traced: BalancedAtLeave decides (capture stack empty at every frame exit).
    for cap_o, cap_c in (("{% set v %}", "{% endset %}{{ v }}"), ("{% filter upper %}", "{% endfilter %}"), ("{% <W> %}", "{% </W> %}"), ("{% set_global g %}", "{% endset %}")):
        for jump in ("break", "continue"):
            for inner in ("{%% %s %%}" % jump, "{%% if i %%}{%% %s %%}{%% endif %%}" % jump, "{%% if i %%}a{%% else %%}{%% %s %%}{%% endif %%}" % jump,
                          "{%% if i %%}{%% if i %%}{%% %s %%}{%% endif %%}{%% endif %%}" % jump,
                          "{%% for k in [1] %%}{%% %s %%}{%% endfor %%}" % jump,                         # legal: the loop is inside the capture
                          "{%% for k in [1] %%}x{%% endfor %%}{%% if i %%}{%% %s %%}{%% endif %%}" % jump):
                core = "{% for i in [1, 0, 2] %}b" + cap_o + "c" + inner + "d" + cap_c + "e{% endfor %}"
                for wrap in ("%s", "{%% filter upper %%}%s{%% endfilter %%}", "{%% set w %%}%s{%% endset %%}{{ w }}", "{%% <W> %%}%s{%% </W> %%}"):
                    # (the whole loop inside another capture: the loop is legal there, the jump out of the inner capture is not)
                    src = "{% component W() %}{{ body }}{% endcomponent W %}" + (wrap % core) + "|after"
                    jumpy.append({"tpls": [["j.html", src]], "cfg": {"probes": True}, "src": src, "entry": "j.html", "ctx": {}})
    allc = snap + jumpy
    # ---- MC on real listings (post and pre optimisation)
    post = vp.run_jobs(corpus.listing_jobs(allc, True), tag="c07-lst")
    chunks = {}
    ops = {}   # per job: blocks and components
    for j, b in zip(allc, post):
        if not b[0].get("ok"):
            continue
        blocks, comps = [], []
        # what the references of this job's chunks may resolve to (RefsResolved): the names the harness registered for the job
        # on top of the built-ins of Sigs.tla, and the job's own templates, blocks and components as the listing shows them
        cfgj = j.get("cfg", {})
        known = {"filters": (PROBE_FILTERS if cfgj.get("probes") else []) + (CONTRIB_FILTERS if cfgj.get("contrib") else []),
                 "tests": [], "functions": PROBE_FUNCTIONS if cfgj.get("probes") else [],
                 "templates": sorted(set(y["tpl"] for y in b[1]["listing"])),
                 "blocks": sorted(set(y["kind"][6:] for y in b[1]["listing"] if y["kind"].startswith("block:"))),
                 "components": sorted(set(y["kind"][10:] for y in b[1]["listing"] if y["kind"].startswith("component:")))}
        for y in b[1]["listing"]:
            for code in (y["code"], y["pre"]):
                key = json.dumps([code, known], sort_keys=True)
                chunks.setdefault(key, {"tpl": y["tpl"], "kind": y["kind"], "h": y["h"], "code": code, "src": j.get("src"), "known": known})
            if y["kind"].startswith("block:"):
                blocks.append((y["tpl"], y["kind"][6:]))
            if y["kind"].startswith("component:"):
                comps.append(y["kind"][10:])
        ops[id(j)] = (blocks, comps)
    clist = [c for c in chunks.values() if c["code"]]
    cp = os.path.join(work, "chunks.ndjson")
    with open(cp, "w") as f:
        for ch in clist:
            f.write(json.dumps({"code": ch["code"], "h": ch["h"], "tpl": ch["tpl"], "kind": ch["kind"], "known": ch["known"]}) + "\n")
    r = vp.tlc("MC_TeraVM", "MC_TeraVM", env={"CHUNKS": cp}, timeout=1800, allow_fail=True, name="c07-mc", coverage=False)
    C.add_tlc(r, "MC_TeraVM on %d distinct real chunks (%d instructions)" % (len(clist), sum(len(c["code"]) for c in clist)))
    C.cov["chunks_model_checked"] = len(clist)
    if not r.ok:
        m = re.search(r"/\\ c = (\d+)", r.out)
        idx = int(m.group(1)) - 1 if m else -1
        ch = clist[idx] if 0 <= idx < len(clist) else {}
        what = "deadlock (an instruction reached without its operands)" if r.deadlock else "invariant %s" % r.violated
        if r.deadlock or r.violated:
            states = re.findall(r"ip \|-> (\d+)", r.out)
            C.violation({"kind": "mc", "what": r.violated or "deadlock", "src": ch.get("src"), "chunk": ch.get("kind")},
                        "MC_TeraVM: %s on chunk %s of %s (abstract counterexample; ips %s)" % (what, ch.get("kind"), ch.get("src"), states[-8:]),
                        {"chunk": ch, "tlc_tail": r.out[-2500:]})
        else:
            raise vp.ToolError("MC_TeraVM failed: " + r.error[:300])
    C.sample({"chunk_of": clist[0]["src"], "kind": clist[0]["kind"], "code": [i["d"] for i in clist[0]["code"]][:10]} if clist else {})
    # ---- concrete renders over weird values, traced
    weird = WEIRD if tier == "thorough" else WEIRD
    jobs, meta = [], []
    for j in allc:
        if id(j) not in ops:
            continue
        blocks, comps = ops[id(j)]
        names = free_names(j["tpls"])
        ctxs = [("orig", j.get("ctx") or {})]
        # maps made for this program: every attribute name it writes after a dot is present and holds undefined / none / a map
        # of the same shape (a path whose every element exists and whose leaf is undefined takes its own error path)
        attrs = sorted(set(a for _, src_ in j["tpls"] for a in re.findall(r"\.([A-Za-z_][A-Za-z0-9_]*)", src_)))[:30]
        au = {a: {"$undef": 1} for a in attrs}
        per_job = [("attrs_undef", au), ("attrs_none", {a: None for a in attrs}), ("attrs_nested_undef", {a: dict(au) for a in attrs})] if attrs else []
        for wn, wv in list(weird) + per_job:
            c = dict(j.get("ctx") or {})
            for n in names:
                c[n] = wv
            ctxs.append((wn, c))
            if tier == "thorough":
                # one variable at a time (the others keep the suite's value)
                pass
        for cn, ctx in ctxs:
            steps = [{"op": "add", "tpls": j["tpls"]}, {"op": "render", "name": j["entry"], "to": {}}]
            for (tpl, b) in blocks[:6]:
                steps.append({"op": "render_block", "name": j["entry"], "block": b})
            for cname in comps[:4]:
                steps.append({"op": "render_component", "name": cname, "auto": True})
            jobs.append({"cfg": j.get("cfg", {}), "ctx": ctx, "steps": steps})
            meta.append((j.get("src"), cn))
    if tier == "thorough":
        # additionally: one free variable at a time replaced by each weird value (snapshot corpus only)
        for j in snap:
            if id(j) not in ops:
                continue
            names = [n for n in (j.get("ctx") or {}).keys()]
            for n in names:
                for wn, wv in WEIRD:
                    c = dict(j["ctx"])
                    c[n] = wv
                    jobs.append({"cfg": j["cfg"], "ctx": c, "steps": [{"op": "add", "tpls": j["tpls"]}, {"op": "render", "name": j["entry"], "to": {}}]})
                    meta.append((j.get("src"), "%s=%s" % (n, wn)))
    res = vp.traced(jobs, C, "c07-weird", timeout=3000)
    for (src, cn), rr, job in zip(meta, res, jobs):
        for k, x in enumerate(rr[1:], 1):
            C.count()
            if x.get("events", 0) > 0:
                C.nontrivial([src, cn, k])
            if x.get("panic") or x.get("abort"):
                C.violation({"kind": "panic", "src": src, "ctx": cn, "step": job["steps"][k]["op"], "msg": (x.get("msg") or "")[:80]},
                            "render panicked/aborted: %s with context %s (%s): %s" % (src, cn, job["steps"][k]["op"], x.get("msg", x.get("rc"))),
                            {"job": job, "step": k, "result": x})
            elif x.get("ok") and isinstance(x.get("accepted"), dict):
                C.violation({"kind": "utf8", "src": src, "ctx": cn}, "render produced invalid UTF-8: %s with %s" % (src, cn), {"job": job, "step": k})
    C.sample({"render": meta[len(meta) // 3][0], "context": meta[len(meta) // 3][1]})
    # ---- reference plantings (Refs.tla): an unknown name at any position must be refused at add time, nothing registered
    import c07_refs
    rr = vp.tlc("Refs", "Refs", workers=2, timeout=600, name="c07-refs")
    C.add_tlc(rr, "Refs (reference plantings)")
    pjobs = []
    plant = [v for v in rr.tags["VEC"] if v["mode"] == "planting"]
    drops = [v for v in rr.tags["VEC"] if v["mode"] == "drop-provider"]
    # histories: provider + user accepted, then the provider is re-added WITHOUT the component
    djobs = []
    for v in drops:
        tpls = c07_refs.planting("component", v["pos"])
        user = [[n, s_.replace("<nocomp/>", "<prov/>")] for n, s_ in tpls if n != "lib.html"]
        lib = [t for t in tpls if t[0] == "lib.html"]
        prov = ["prov.html", "{% component prov() %}P{% endcomponent prov %}"]
        djobs.append({"cfg": {}, "ctx": {}, "steps": [{"op": "add", "tpls": lib + [prov] + user}, {"op": "state"}, {"op": "render", "name": "t.html"},
                                                       {"op": "add", "tpls": [["prov.html", "no component any more"]]}, {"op": "state"}, {"op": "render", "name": "t.html"}]})
    dres = vp.run_jobs(djobs, tag="c07-drops", timeout=600)
    for v, b, job in zip(drops, dres, djobs):
        C.count()
        C.nontrivial(["drop-provider", v["pos"]])
        key = {"kind": "drop-provider", "pos": v["pos"]}
        if any(x.get("panic") or x.get("abort") for x in b):
            C.violation(dict(key, kind="panic"), "panic/abort after re-adding a component provider without the component used at %s: %s" % (v["pos"], [x.get("msg") or x.get("rc") for x in b if x.get("panic") or x.get("abort")]),
                        {"job": job, "result": b})
        elif not b[0].get("ok"):
            C.violation(dict(key, kind="setup"), "provider + user set refused: %s" % (b[0].get("msg") or b[0].get("disp", ""))[:200], {"job": job})
        elif b[3].get("ok") or b[1] != b[4] or (b[2].get("ok"), b[2].get("out")) != (b[5].get("ok"), b[5].get("out")):
            C.violation(key, "re-adding the provider without the component used at %s: accepted=%s, registry changed=%s, render before %r / after %r" % (
                v["pos"], b[3].get("ok"), b[1] != b[4], b[2].get("out"), b[5].get("out") if b[5].get("ok") else b[5].get("kind")), {"job": job, "result": b})
    for v in plant:
        tpls = c07_refs.planting(v["kind"], v["pos"])
        good = [t for t in tpls if t[0] == "lib.html"]
        # (1) the batch with the planting, into an empty instance; (2) the same planting added on top of a valid instance
        pjobs.append({"cfg": {}, "steps": [{"op": "add", "tpls": tpls}, {"op": "names"}]})
        pjobs.append({"cfg": {}, "steps": [{"op": "add", "tpls": good + [["t.html", "fine"]]}, {"op": "state"}, {"op": "add", "tpls": [t for t in tpls if t[0] != "lib.html"]},
                                           {"op": "state"}, {"op": "render", "name": "t.html"}]})
    pres = vp.run_jobs(pjobs, tag="c07-refs", timeout=600)
    for i, v in enumerate(plant):
        a, b = pres[2 * i], pres[2 * i + 1]
        C.count(2)
        C.nontrivial(["planting", v["kind"], v["pos"]])
        key = {"kind": "planting", "ref": v["kind"], "pos": v["pos"]}
        if any(x.get("panic") or x.get("abort") for x in a + b):
            C.violation(dict(key, kind="panic"), "panic registering a template with an unknown %s at %s" % (v["kind"], v["pos"]), {"job": pjobs[2 * i]})
            continue
        if a[0].get("ok") or a[1].get("names"):
            C.violation(key, "an unknown %s at position %s was %s at registration (templates left registered: %s): %s" % (
                v["kind"], v["pos"], "accepted" if a[0].get("ok") else "refused", a[1].get("names"), pjobs[2 * i]["steps"][0]["tpls"][-1][1]), {"job": pjobs[2 * i], "result": a})
        if b[2].get("ok") or b[1] != b[3] or b[4].get("out") != "fine":
            C.violation(dict(key, history="on-top"), "adding an unknown %s at %s on top of a valid instance: accepted=%s, instance changed=%s, t.html renders %r" % (
                v["kind"], v["pos"], b[2].get("ok"), b[1] != b[3], b[4].get("out")), {"job": pjobs[2 * i + 1], "result": b})
    # ---- accepted sets that recurse (MC_Recur): component calls and includes in every combination; the render must
    #      come back (text or error value), whole, by block-less entry, and each component through the API
    import recur_glue
    rq = vp.tlc("MC_Recur", "MC_Recur", workers=4, timeout=600, name="c07-recur")
    C.add_tlc(rq, "MC_Recur (bounded call stack on accepted call graphs)")
    rv = [v for v in rq.tags["VEC"] if v["res"] != "refused"]
    rjobs = [{"cfg": {}, "ctx": {}, "steps": [{"op": "add", "tpls": recur_glue.templates(v["g"])}, {"op": "render", "name": v["entry"]},
                                               {"op": "render_component", "name": "c", "auto": True}, {"op": "render_component", "name": "d", "auto": True}]} for v in rv]
    rres = vp.run_jobs(rjobs, tag="c07-recur", timeout=900, may_abort=True)
    for v, b, job in zip(rv, rres, rjobs):
        C.count(3)
        if any(o != "none" for o in v["g"].values()):
            C.nontrivial(["recur", v["g"], v["entry"]])
        if any(x.get("panic") or x.get("abort") for x in b):
            C.violation({"kind": "recursion-abort", "graph": v["g"], "entry": v["entry"]}, "rendering %s of the accepted call graph %s killed the process / panicked: %s" % (
                v["entry"], v["g"], [x.get("msg") or x.get("rc") for x in b if x.get("panic") or x.get("abort")][:1]), {"job": job, "result": b})
        elif (v["res"] == "text") != bool(b[1].get("ok")):
            C.violation({"kind": "recursion-outcome", "graph": v["g"], "entry": v["entry"]}, "call graph %s from %s: engine %s, specification %s" % (
                v["g"], v["entry"], "renders" if b[1].get("ok") else "fails (%s)" % (b[1].get("msg") or b[1].get("disp", ""))[:80], v["res"]), {"job": job, "result": b})
    # ---- operand sites (Sites.tla): every producer of an operand x every consumer, in eight hosts, optimiser on and off
    import sites
    sites.run(C, "C07", list(sites.HOSTS))
    C.assumptions += ["abstract contexts over-approximate: every name load / call result is any of 18 abstract values; loops run 0, 1 or 2+ times",
                      "calls into blocks / super / components / includes are verified modularly (each chunk from an empty stack)",
                      "panics on values outside the weird-value universe are not excluded"]
    return C.finish()


def replay(path):
    d = json.load(open(path))
    job = d["replay"].get("job")
    if job:
        r = vp.run_jobs([job], tag="replay")
        print(json.dumps(r, indent=1)[:3000])
    else:
        print(json.dumps(d, indent=1)[:3000])
    return 0
