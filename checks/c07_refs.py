"""Reference plantings for C07 (Refs.tla): builds the template set for a (kind, position) planting."""
REF = {"filter": "(1 | nofilter)", "test": "(1 is notest)", "function": "nofn()", "component": "<nocomp/>"}
K = "{% component k(a=1) %}{{ a }}{% endcomponent k %}{% component k2() %}{{ body }}{% endcomponent k2 %}"


def planting(kind, pos):
    """-> list of [name, source]; the unknown reference sits at the requested position"""
    tpls = [["lib.html", K]]
    if kind == "parent":
        host = "{% extends 'nope.html' %}{% block b %}x{% endblock %}"
        if pos == "body":
            return tpls + [["t.html", host]]
        return tpls + [["inc.html", host], ["t.html", "{% include 'inc.html' %}"]]
    if kind == "include":
        X, S = None, "{% include 'nope.html' %}"
    else:
        X, S = REF[kind], "{{ " + REF[kind] + " }}"
    extra = []
    wrap = {
        "body": lambda: S, "dead-branch": lambda: "{% if false %}" + S + "{% endif %}", "block": lambda: "{% block b %}" + S + "{% endblock %}",
        "nested-block": lambda: "{% block b %}{% block c %}" + S + "{% endblock %}{% endblock %}",
        "component-definition-body": lambda: "{% component never() %}" + S + "{% endcomponent never %}",
        "for-else": lambda: "{% for i in [] %}{% else %}" + S + "{% endfor %}", "component-call-body": lambda: "{% <k2> %}" + S + "{% </k2> %}",
        "set-block-body": lambda: "{% set v %}" + S + "{% endset %}", "filter-section-body": lambda: "{% filter upper %}" + S + "{% endfilter %}",
        "kwarg-value": lambda: "{{ 1 | default(value=" + X + ") }}", "component-attribute": lambda: "{{<k a={" + X + "} />}}",
        "spread-operand": lambda: "{{ [...[" + X + "]] }}", "comprehension-source": lambda: "{{ [y for y in [" + X + "]] }}",
        "comprehension-condition": lambda: "{{ [y for y in [1] if " + X + "] }}", "ternary-branch": lambda: "{{ 1 if true else " + X + " }}",
        "for-target": lambda: "{% for i in [" + X + "] %}{% endfor %}", "set-value": lambda: "{% set v = " + X + " %}",
        "if-condition": lambda: "{% if " + X + " %}{% endif %}", "elif-condition": lambda: "{% if true %}{% elif " + X + " %}{% endif %}",
        "map-literal-value": lambda: "{{ {'a': " + X + "} }}", "subscript": lambda: "{{ [1][" + X + "] }}",
        "set-block-filter": lambda: "{% set v | nofilter %}x{% endset %}", "filter-section-name": lambda: "{% filter nofilter %}x{% endfilter %}",
    }
    if pos == "included-template":
        return tpls + [["inc.html", S], ["t.html", "{% include 'inc.html' %}"]]
    if pos == "parent-block":
        return tpls + [["p.html", "{% block b %}" + S + "{% endblock %}"], ["t.html", "{% extends 'p.html' %}"]]
    return tpls + [["t.html", "ok " + wrap[pos]()]]
