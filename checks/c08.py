"""C08 — template text is reproduced verbatim except whitespace next to `-` markers.

M    TLC (MC_Lexer): the small-step whitespace filter with a carried trim flag (shape of the code) refines
     Out(src), written from the statement, on every segment sequence up to MaxLen.
     (MC_Lexer_pinned.cfg is the filter as it was in the pinned tree: TLC gives the 3-segment counterexample.)
S→I  every sequence is concretised (whitespace runs, cores with partial delimiters / multi-byte characters
     sharing bytes with delimiters, raw bodies full of delimiters) under four delimiter sets and rendered;
     oracle: the concatenation of the parts Out(src) keeps, byte for byte; the three spellings must agree."""
import json, random
import vp

DSETS = {
    "default": ["{%", "%}", "{{", "}}", "{#", "#}"],
    "ascii": ["<%", "%>", "<<", ">>", "<#", "#>"],
    "multibyte": ["«", "»", "¿", "¡", "§", "¶"],      # all 2-byte characters with lead byte 0xC2
    "distinct": ["<%", "%>", "[[", "]]", "(#", "#)"],   # three start delimiters with three different first bytes
}
WS = [" ", "\n", "\t", "  \n ", "\r\n", " \t ", "\u00a0", " \u2003\n", "\u3000 ", "\u0085", "\x0b\x0c"]     # Unicode White_Space, as str::trim
CORES = ["x", "a{b", "%}", "}}", "#}", "a-b", "-", "é", "©ë", "世", "x}", "{ y", "%", "a # b", "}-", "\U0001F600", "a b", "->", "\u200b", "\u200bx\ufeff"]   # zero-width space / BOM are NOT whitespace
RAWCORES = ["r", "{{ not }}", "{% if %}", "{# c #}", "{{- x -}}", "<< y >>", "¿ z ¡", "{% endra %}", "©-«", "{%- if x %} y", "{%- endra", "<%- z", "a -%}", "{%- raw -%}",
            "{%\u00a0endraw %}", "{%\u2003endraw\u00a0%} x", "{%\x0bendraw %}", "{% endraw\u00a0."]      # blanks that are not ASCII whitespace do not make a tag


def concretise(src, ds, rnd):
    BS, BE, VS, VE, CS, CE = DSETS[ds]
    parts = {}
    text = []
    for i, s in enumerate(src, 1):
        k = s["k"]
        if k == "text":
            lead = rnd.choice(WS) if s["l"] else ""
            core = rnd.choice(CORES) if s["c"] else ""
            trail = rnd.choice(WS) if s["t"] else ""
            parts[(i, "lead")], parts[(i, "core")], parts[(i, "trail")] = lead, core, trail
            text.append(lead + core + trail)
        elif k == "expr":
            parts[(i, "value")] = "<E>"
            text.append(VS + ("-" if s["dl"] else "") + rnd.choice([" v ", "v", "  v\n"]) + ("-" if s["dr"] else "") + VE)
        elif k == "tag":
            text.append(BS + ("-" if s["dl"] else "") + rnd.choice([" set z = 1 ", " set z=1 "]) + ("-" if s["dr"] else "") + BE)
        elif k == "com":
            text.append(CS + ("-" if s["dl"] else "") + rnd.choice([" c ", " {{ v }} ", " - ", " c\nd "]) + ("-" if s["dr"] else "") + CE)
        else:
            lead, core, trail = rnd.choice(WS), rnd.choice(RAWCORES), rnd.choice(WS)
            parts[(i, "lead")], parts[(i, "core")], parts[(i, "trail")] = lead, core, trail
            text.append(BS + ("-" if s["dl"] else "") + " raw " + ("-" if s["il"] else "") + BE + lead + core + trail +
                        BS + ("-" if s["ir"] else "") + " endraw " + ("-" if s["dr"] else "") + BE)
    return "".join(text), parts


def shape(src):
    return "".join({"text": "T", "expr": "E", "tag": "G", "com": "C", "raw": "R"}[s["k"]] for s in src)


def run(tier):
    C = vp.Check("C08", tier, "model_checking")
    maxlen = 3 if tier == "quick" else 4
    variants = 2 if tier == "quick" else 2
    with open(vp.SPEC + "/MC_Lexer_run.cfg", "w") as f:
        f.write(open(vp.SPEC + "/MC_Lexer.cfg").read().replace("MaxLen = 3", "MaxLen = %d" % maxlen))
    r = vp.tlc("MC_Lexer", "MC_Lexer_run", workers=4, timeout=3000, name="c08", xmx="16g")
    C.add_tlc(r, "MC_Lexer (Filt refines Out), sequences <= %d segments" % maxlen)
    C.cov["exhaustive"] = True
    C.cov["rule"] = ("all well-formed segment sequences of length <= %d over 33 segment shapes (5 text shapes, 4 marker combinations for "
                     "expressions/tags/comments, 16 for raw blocks), each concretised %d times under 4 delimiter sets; non-trivial = distinct "
                     "sequence containing at least one `-` marker or raw/comment segment" % (maxlen, variants))
    vecs = r.tags["VEC"]
    rnd = random.Random(vp.seed() * 7919 + 17)
    jobs, meta = [], []
    for vi, v in enumerate(vecs):
        src = v["src"]
        for var in range(variants):
            st = rnd.getrandbits(48)
            for ds in DSETS:
                text, parts = concretise(src, ds, random.Random(st))
                exp = "".join(parts[(p[0], p[1])] for p in v["out"])
                steps = [{"op": "render_str", "src": text, "auto": False}]
                if (vi + var) % 4 == 0:
                    # the other way in: a registered template (same lexer, other entry point); must give the same text
                    steps += [{"op": "add", "tpls": [["t.txt", text]]}, {"op": "render", "name": "t.txt"}]
                jobs.append({"cfg": {"delims": DSETS[ds]}, "ctx": {"v": "<E>"}, "steps": steps})
                meta.append((vi, var, ds, text, exp))
    # sources without any start delimiter render to themselves
    for core in CORES + ["}} %} #}", "{", "a { b } c", "é©«ë"]:
        for ds in DSETS:
            if any(d in core for d in DSETS[ds][0::2]):
                continue
            for w in ("", " ", "\n"):
                text = w + core + w
                jobs.append({"cfg": {"delims": DSETS[ds]}, "ctx": {}, "steps": [{"op": "render_str", "src": text, "auto": False}]})
                meta.append((-1, 0, ds, text, text))
    # symmetry: whatever counts as whitespace at a facing end counts the same at BOTH ends and for every kind of marker
    # (the statement does not list the characters; the two sides must agree)
    sym = []
    for w in ("\u00a0", "\u3000", "\u2028", "\u0085", "\x0b", "\x0c", "\u2003", " \u00a0 "):
        for ds, d in DSETS.items():
            BS, BE, VS, VE, CS, CE = d
            pairs = [(VS + " v -" + VE + w + "x", "x" + w + VS + "- v " + VE), (BS + " set z = 1 -" + BE + w + "x", "x" + w + BS + "- set z = 1 " + BE),
                     (CS + " c -" + CE + w + "x", "x" + w + CS + "- c " + CE),
                     (BS + " raw " + BE + "r" + BS + " endraw -" + BE + w + "x", "x" + w + BS + "- raw " + BE + "r" + BS + " endraw " + BE)]
            for a, b in pairs:
                sym.append((w, ds, a, b))
    sres = vp.run_jobs([{"cfg": {"delims": DSETS[ds]}, "ctx": {"v": "V"}, "steps": [{"op": "render_str", "src": a, "auto": False}, {"op": "render_str", "src": b, "auto": False}]} for w, ds, a, b in sym], tag="c08-sym")
    for (w, ds, a, b), rr in zip(sym, sres):
        C.count(2)
        C.nontrivial(["sym", w, ds, a])
        if not (rr[0].get("ok") and rr[1].get("ok")):
            C.violation({"kind": "sym-error", "w": repr(w), "delims": ds}, "error rendering %r / %r" % (a, b), {"a": a, "b": b, "result": rr})
            continue
        after_trimmed = w not in rr[0]["out"]
        before_trimmed = w not in rr[1]["out"]
        if after_trimmed != before_trimmed:
            C.violation({"kind": "asymmetric-whitespace", "w": repr(w), "delims": ds},
                        "the character %r is %s after a closing `-` marker (%r -> %r) but %s before an opening one (%r -> %r)" % (
                            w, "trimmed" if after_trimmed else "kept", a, rr[0]["out"], "trimmed" if before_trimmed else "kept", b, rr[1]["out"]), {"a": a, "b": b, "result": rr})
    # a refused set_delimiters leaves the set in force untouched: afterwards the default delimiters still work, and sources
    # spelled with the refused ones are plain text where they should be
    for bad in (["{%", "%}", "{{", "}}", "{{", "#}"], ["{%", "%}", "{{", "}}", "{#", ""], ["{%", "%}", "{{", "}}", "{#", "#"], ["<%", "%>", "<%", ">>", "<#", "#>"], ["{%", "%}", "{{", "}}", "{#", "\u65e5"]):
        text = "a {# note #} b {{ v }}{% set z = 1 %} <# n #> << v >>"
        jobs.append({"cfg": {"delims": bad, "delims_soft": True}, "ctx": {"v": "<E>"}, "steps": [{"op": "render_str", "src": text, "auto": False}]})
        meta.append((-1, 0, "default", text, "a  b <E> <# n #> << v >>"))
    res = vp.run_jobs(jobs, tag="c08", timeout=3000)
    outs = {}
    for (vi, var, ds, text, exp), rr in zip(meta, res):
        C.count()
        x = rr[0]
        src = vecs[vi]["src"] if vi >= 0 else [{"k": "text"}]
        sh = shape(src)
        if vi >= 0 and any(s["k"] in ("raw", "com") or s.get("dl") or s.get("dr") for s in src):
            C.nontrivial(src)
        key = {"shape": sh, "seq": [[s["k"]] + [int(bool(s.get(f))) for f in ("dl", "dr", "il", "ir", "l", "c", "t")] for s in src], "delims": ds}
        if x.get("panic") or x.get("abort"):
            C.violation(dict(key, kind="panic"), "panic rendering %r under %s delimiters" % (text, ds), {"src": text, "delims": DSETS[ds]})
            continue
        got = x.get("out") if x.get("ok") else None
        if len(rr) == 3 and (rr[2].get("ok"), rr[2].get("out")) != (x.get("ok"), x.get("out")) and not (not x.get("ok") and not rr[1].get("ok")):
            C.violation(dict(key, kind="entry-point"), "%r under %s delimiters: render_str gives %r, the registered template %r" % (
                text, ds, x.get("out") if x.get("ok") else "error", rr[2].get("out") if rr[2].get("ok") else "error: " + (rr[1].get("msg") or rr[2].get("msg") or "")[:80]), {"src": text, "delims": DSETS[ds]})
        if got != exp:
            C.violation(dict(key, kind="text"), "%r under %s delimiters renders %r, the statement gives %r" % (
                text, ds, got if x.get("ok") else "error: " + (x.get("msg") or x.get("disp", ""))[:100], exp),
                {"src": text, "delims": DSETS[ds], "expected": exp, "got": x, "segments": src})
        outs.setdefault((vi, var), {})[ds] = got
    for (vi, var), d in outs.items():
        if vi >= 0 and len(set(d.values())) > 1:
            C.violation({"kind": "respell", "seq": shape(vecs[vi]["src"])}, "re-spelling with other delimiters changes the output: %s" % d,
                        {"segments": vecs[vi]["src"], "outputs": d})
    k = len(meta) // 2
    C.sample({"segments": vecs[meta[k][0]]["src"], "delims": meta[k][2], "src": meta[k][3], "expected": meta[k][4]})
    C.sample({"src": meta[5][3], "expected": meta[5][4], "delims": meta[5][2]})
    C.assumptions += ["whitespace = characters with the Unicode White_Space property (what str::trim removes): ASCII space/tab/CR/LF/VT/FF and U+0085, U+00A0, U+2003, U+3000 are placed at facing ends; U+200B and U+FEFF are not whitespace and are kept",
                      "cores never end with the first byte of a start delimiter"]
    return C.finish()


def replay(path):
    d = json.load(open(path))["replay"]
    job = {"cfg": {"delims": d["delims"]}, "ctx": {"v": "<E>"}, "steps": [{"op": "render_str", "src": d["src"], "auto": False}]}
    print(json.dumps(vp.run_jobs([job], tag="replay"), indent=1), "\nexpected:", repr(d.get("expected")))
    return 0
