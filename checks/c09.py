"""C09 — the instruction-fusion pass never changes what a template renders.

M2  TLC (MC_Fusion, mode "local"): every tuple of lookup outcomes along a path of length 1..MaxPath:
    fused LoadPath/WritePath == the unfused sequence (invariants LoadEquiv / WriteEquiv), and every
    tuple is emitted with the outcome the UNFUSED reference assigns.
S→I each tuple is concretised as a context and rendered through the real engine with the pass ON and
    OFF (cfg(tera_verif) switch): both must give the outcome of the specification.
M1  TLC (MC_Fusion, mode "pair"): ValidFusion(pre, post) on the real listing pairs of a corpus of
    templates (snapshot suite + jump-adjacent path shapes), dumped with the switch off / on.
S→I on/off differential over the corpus × contexts; I→S traces of both validated against TeraVM."""
import json, os, itertools
import vp, corpus

NAMES = ["r", "a", "b", "c", "d"]
LEAF = {"none": None, "scalar": 7, "str": "s<", "arr": ["<"], "undef": {"$undef": 1}}


def concretise(vs, safe=False):
    """Context realising the tuple of lookup outcomes vs along the path r.a.b.c"""
    def build(i):
        # value found at step i (vs[i] is not "missing")
        k = vs[i]
        if k != "map":
            return {"$safe": LEAF[k]} if (safe and k == "str") else LEAF[k]
        m = {"zz": 0}
        if i + 1 < len(vs) and vs[i + 1] != "missing":
            m[NAMES[i + 1]] = build(i + 1)
        return m
    if vs[0] == "missing":
        return {}
    return {"r": build(0)}


def path_of(n):
    return ".".join(NAMES[:n])


KIND_TPL = ("{% if P is undefined %}undef{% elif P is none %}none{% elif P is string %}str"
            "{% elif P is array %}arr{% elif P is map %}map{% else %}scalar{% endif %}")

JUMPY = [
    "{{ a.b and c.d }}", "{{ a.b or c.d }}", "{{ x or a.b.c }}", "{{ x and a.b.c }}", "{{ false and u.name }}",
    "{{ a.b if c.d else e.f }}", "{{ a.b if x else e.f }}", "{{ (a.b or c.d) and e.f }}",
    "{% if a.b %}{{ c.d }}{% else %}{{ e.f }}{% endif %}", "{% if x %}{{ a.b }}{% endif %}{{ c.d }}",
    "{% for i in a.xs %}{{ i.y }}{% else %}{{ c.d }}{% endfor %}{{ e.f }}",
    "{% for i in a.xs %}{% if i.y %}{% break %}{% endif %}{{ i.y }}{% endfor %}",
    "{% for i in a.xs %}{% if i.y %}{% continue %}{% endif %}{{ a.b }}{% endfor %}",
    "{{ a.b ~ c.d }}", "{{ a.b is defined and a.b }}", "{{ a.b | default(value=c.d) }}",
    "{{ [i.y for i in a.xs if i.y] }}", "{{ a?.b or c.d }}", "{{ a.b.c.d }}", "{{ a['b'].c }}",
    "{% set v = a.b %}{{ v }}{{ v.c }}", "{% set_global g = c.d or e.f %}{{ g }}",
    "{% filter upper %}{{ a.b }}{% endfilter %}", "{{ not a.b or c.d }}", "{{ a.b == c.d or e.f }}",
    "{{ x and y and a.b }}", "{{ x or y or a.b }}", "{{ a.b and (c.d or e.f) }}",
    "{% if x and a.b %}1{% elif y or c.d %}2{% else %}{{ e.f }}{% endif %}",
    "{{ __tera_context }}", "{{ loop.index }}", "{% for k, v in a %}{{ k }}={{ v.y }};{% endfor %}",
    "{{ __tera_context.x }}", "{% if __tera_context.a.b %}1{% endif %}", "{{ __tera_context.c.d or 'n' }}", "{{ __tera_context['x'] }}", "{{ (__tera_context | length) > 0 }}",
    "{% for i in a.xs %}{{ loop.index }}{{ loop.last }}{% endfor %}", "{{ a.b if x else c.d }}{{ e.f }}", "{{ x if a.b else c.d }}", "{% set v = x if y else a.b %}{{ v }}",
    "{{ [a.b, c.d][0] }}", "{{ a.b | default(value=1) if x else c.d }}", "{% if a.b %}{% elif c.d %}{{ e.f }}{% endif %}",
]
JCTX = [
    {},
    {"a": {"b": 1, "xs": [{"y": 1}, {"y": 0}], "c": {"d": 2}}, "c": {"d": "cd"}, "e": {"f": "ef"}, "x": 1, "y": 0},
    {"a": {"b": 0, "xs": []}, "c": {"d": ""}, "e": {"f": "ef"}, "x": 0, "y": 1},
    {"a": {"b": {"c": {"d": "deep"}}, "xs": [{"y": 0}, {"y": 2}]}, "c": {}, "e": {"f": {"$undef": 1}}, "x": "", "y": "y"},
    {"a": {"b": {"$undef": 1}}, "c": {"d": None}, "x": 1, "u": {"name": "n"}},
]


def run(tier):
    C = vp.Check("C09", tier, "model_checking")
    C.cov["rule"] = ("M2: all consistent tuples of lookup outcomes (7 outcomes per step) along paths of length 1..MaxPath; "
                     "M1: every distinct (pre, post) listing pair of the corpus; non-trivial = a tuple/pair/render in which at least one "
                     "instruction was actually fused (path length >= 2 or a path directly written)")
    maxpath = 4 if tier == "quick" else 5
    work = vp.workdir("c09")
    # ---- corpus listings, pass off / on
    snap = corpus.snapshot_jobs(trace=False)
    jumpy = []
    for src in JUMPY:
        for bi, body in enumerate((src, "{% block k %}" + src + "{% endblock %}",
                                   "{% component C() %}" + src + "{% endcomponent C %}{{<C/>}}")):
            jumpy.append({"tpls": [["j.html", body]], "cfg": {"probes": True}, "src": body, "entry": "j.html"})
    # includes whose partial reads names the includer shadows (assignment, loop variable) -- plain and dotted, written and
    # loaded: the fused and the plain instructions go through the same scopes
    for part in ("{{ x }}|{{ a.b }}|{% if a.b %}y{% endif %}|{{ x or a.b }}", "{% set v = a.b %}{{ v }}{{ x }}", "{% for q in [1] %}{{ x }}{{ a.b }}{% endfor %}"):
        for host in ("{% set x = 'L' %}{% set a = {'b': 'LB'} %}{% include 'part.html' %}", "{% for x in ['I', 'J'] %}{% for a in [{'b': 'IB'}] %}{% include 'part.html' %}{% endfor %}{% endfor %}",
                     "{% include 'part.html' %}{% set_global x = 'G' %}{% include 'part.html' %}", "{% set c %}{% set x = 'C' %}{% include 'part.html' %}{% endset %}{{ c }}{% include 'part.html' %}"):
            jumpy.append({"tpls": [["part.html", part], ["j.html", host]], "cfg": {"probes": True}, "src": host + " <- " + part, "entry": "j.html"})
    allc = snap + jumpy
    post = vp.run_jobs(corpus.listing_jobs(allc, True), tag="c09-post")
    pairs = {}
    fused_pairs = 0
    for j, b in zip(allc, post):
        if not b[0].get("ok"):
            continue
        for y in b[1]["listing"]:
            key = json.dumps([y["pre"], y["code"]], sort_keys=True)
            if key not in pairs:
                pairs[key] = {"pre": y["pre"], "post": y["code"], "tpl": y["tpl"], "kind": y["kind"], "src": j.get("src")}
    pp = os.path.join(work, "pairs.ndjson")
    plist = list(pairs.values())
    with open(pp, "w") as f:
        for p in plist:
            f.write(json.dumps({"pre": p["pre"], "post": p["post"]}) + "\n")
            if len(p["pre"]) != len(p["post"]):
                fused_pairs += 1
                C.nontrivial(["pair", p["pre"], p["post"]])
    # ---- TLC: M1 on the real pairs; M2 on all tuples (with the repaired-instruction model)
    cfgtxt = open(os.path.join(vp.SPEC, "MC_Fusion.cfg")).read()
    with open(os.path.join(vp.SPEC, "MC_Fusion_m1.cfg"), "w") as f:
        f.write(cfgtxt.replace("MaxPath = 4", "MaxPath = 0"))
    with open(os.path.join(vp.SPEC, "MC_Fusion_m2.cfg"), "w") as f:
        f.write(cfgtxt.replace("MaxPath = 4", "MaxPath = %d" % maxpath))
    r1 = vp.tlc("MC_Fusion", "MC_Fusion_m1", env={"PAIRS": pp}, workers=8, timeout=900, allow_fail=True, name="c09-m1")
    C.add_tlc(r1, "MC_Fusion M1: ValidFusion on %d real listing pairs" % len(plist))
    C.cov["listing_pairs"] = len(plist)
    C.cov["listing_pairs_with_fusion"] = fused_pairs
    if not r1.ok:
        if r1.violated == "M1":
            import re
            m = re.search(r"/\\ i = (\d+)", r1.out)
            idx = int(m.group(1)) - 1 if m else -1
            p = plist[idx] if 0 <= idx < len(plist) else {}
            C.violation({"kind": "M1", "src": p.get("src"), "chunk": p.get("kind")},
                        "ValidFusion fails on the listing pair of %s (%s)" % (p.get("src"), p.get("kind")), {"pair": p})
        else:
            raise vp.ToolError("MC_Fusion (M1) failed: " + r1.error[:300])
    r = vp.tlc("MC_Fusion", "MC_Fusion_m2", env={"PAIRS": ""}, workers=4, timeout=900, allow_fail=True, name="c09-m2")
    C.add_tlc(r, "MC_Fusion M2: local equivalence, tuples up to length %d" % maxpath)
    if not r.ok:
        if r.violated in ("LoadEquiv", "WriteEquiv"):
            raise vp.ToolError("the specification's own fused/unfused models disagree (%s): spec defect" % r.violated)
        raise vp.ToolError("MC_Fusion (M2) failed: " + r.error[:300])
    vecs = r.tags.get("VEC", [])
    # ---- S->I: every tuple, pass on and off, against the unfused reference outcome
    jobs, meta = [], []
    for v in vecs:
      for safe in ((False, True) if "str" in v["vs"] else (False,)):       # a string leaf also as a string marked safe
        vs = v["vs"]
        ctx = concretise(vs, safe)
        P = path_of(len(vs))
        for opt in (True, False):
            jobs.append({"cfg": {"optimize": opt, "autoescape": [".html"]}, "ctx": ctx, "steps": [
                {"op": "render_str", "src": "{{ %s }}" % P, "auto": False},
                {"op": "render_str", "src": KIND_TPL.replace("P", P), "auto": False},
                {"op": "render_str", "src": "[{{ %s }}]" % P, "auto": True},
                # the same write inside a component rendered through the API with the autoescape flag AGAINST the suffix rule
                # of its template, both ways (the fused write has to take the same escape decision as the plain one)
                {"op": "add", "tpls": [["k.txt", "{%% component K(r) %%}[{{ %s }}]{%% endcomponent K %%}" % P], ["k.html", "{%% component H(r) %%}[{{ %s }}]{%% endcomponent H %%}" % P]]},
                {"op": "render_component", "name": "K", "auto": True, "expect_ae": True},
                {"op": "render_component", "name": "H", "auto": False, "expect_ae": False}]})
            meta.append((v, opt, safe))
    res = vp.traced(jobs, C, "c09-local")
    outs = {}
    for (v, opt, safe), rr in zip(meta, res):
        vs = v["vs"]
        C.count(3)
        if len(vs) >= 2:
            C.nontrivial(["tuple", vs])
        w, k, w2 = rr[0], rr[1], rr[2]
        if any(x.get("panic") or x.get("abort") for x in rr):
            C.violation({"kind": "panic", "vs": vs, "opt": opt}, "panic rendering path %s" % vs, {"vs": vs, "opt": opt, "result": rr})
            continue
        exp_w, exp_l = v["write"], v["load"]
        got_w = "err" if not w["ok"] else "write"
        if got_w != exp_w["r"]:
            C.violation({"kind": "write", "vs": vs, "opt": opt},
                        "{{ %s }} with lookups %s: engine (pass %s) %s, unfused reference %s" % (
                            path_of(len(vs)), vs, "on" if opt else "off", "fails" if got_w == "err" else "writes %r" % w.get("out"), exp_w),
                        {"vs": vs, "ctx": concretise(vs), "opt": opt, "expected": exp_w, "got": w})
        got_l = "err" if not k["ok"] else k["out"]
        want_l = "err" if exp_l["r"] == "err" else exp_l["v"]
        if got_l != want_l:
            C.violation({"kind": "load", "vs": vs, "opt": opt},
                        "loading %s with lookups %s: engine (pass %s) gives %s, unfused reference %s" % (
                            path_of(len(vs)), vs, "on" if opt else "off", got_l, want_l),
                        {"vs": vs, "ctx": concretise(vs), "opt": opt, "expected": exp_l, "got": k})
        outs.setdefault(json.dumps(vs + (["safe"] if safe else [])), {})[opt] = [(x.get("ok"), x.get("out")) for x in rr]
    for key, d in outs.items():
        if True in d and False in d and d[True] != d[False]:
            C.violation({"kind": "onoff", "vs": json.loads(key)}, "pass on/off differ on lookups %s: %s vs %s" % (key, d[True], d[False]),
                        {"vs": json.loads(key), "on": d[True], "off": d[False]})
    C.sample({"tuple": vecs[len(vecs) // 2] if vecs else None})
    # ---- S->I: on/off differential on the corpus
    djobs, dmeta = [], []
    for j in snap:
        for opt in (True, False):
            cfg = dict(j["cfg"], optimize=opt)
            djobs.append({"cfg": cfg, "ctx": j["ctx"], "steps": [{"op": "add", "tpls": j["tpls"]}, {"op": "render", "name": j["entry"]}]})
            dmeta.append((j["src"], "snapshot", opt))
    for j in jumpy:
        for ci, ctx in enumerate(JCTX):
            for opt in (True, False):
                djobs.append({"cfg": {"probes": True, "optimize": opt}, "ctx": ctx,
                              "steps": [{"op": "add", "tpls": j["tpls"]}, {"op": "render", "name": "j.html"}]})
                dmeta.append((j["src"], ci, opt))
    dres = vp.traced(djobs, C, "c09-diff")
    by = {}
    for (src, ci, opt), rr in zip(dmeta, dres):
        C.count()
        x = rr[-1]
        if x.get("panic") or x.get("abort"):
            C.violation({"kind": "panic", "src": src, "ctx": ci, "opt": opt}, "panic rendering %s" % src, {"src": src, "ctx": ci, "opt": opt})
            continue
        by.setdefault((src, ci), {})[opt] = (x.get("ok"), x.get("out"))
    for (src, ci), d in by.items():
        C.nontrivial(["diff", src, ci])
        if d.get(True) != d.get(False):
            C.violation({"kind": "onoff-corpus", "src": src, "ctx": ci},
                        "pass on/off differ on %s (context %s): %s vs %s" % (src, ci, d.get(True), d.get(False)),
                        {"src": src, "ctx": JCTX[ci] if isinstance(ci, int) else "snapshot", "on": d.get(True), "off": d.get(False)})
    C.sample({"pair_src": plist[0]["src"], "pre": [i["d"] for i in plist[0]["pre"]][:8], "post": [i["d"] for i in plist[0]["post"]][:8]} if plist else {})
    C.sample({"differential": dmeta[len(dmeta) // 2][0]})
    C.assumptions += ["the cfg(tera_verif) switch skips Chunk::optimize and nothing else",
                      "M1+M2 compose to bisimilarity only for programs whose fused groups are the shapes of M2 (M1 checks exactly that)",
                      "abstract lookup outcomes: undef/none/scalar/str/arr/map/missing"]
    return C.finish()


def replay(path):
    d = json.load(open(path))
    print(json.dumps(d, indent=1)[:3000])
    return 0
