"""C10 — template registration is atomic and independent of history.

M    TLC (MC_Registry): in every reachable state Accept(templates) holds and the code-shaped lineage construction
     equals the declarative one; a failing AddBatch is a stuttering step (by construction of the action, and
     checked against the engine below).
S→I  every explored transition (pre, action, post) is emitted through the ACTION_CONSTRAINT; the harness reaches `pre`
     by the one-batch history and by a second history (one by one in dependency order, failing attempts and re-adds
     interleaved), applies the action and compares: Ok/Err and error class, template names, the registry projection
     (parents, block lineages, autoescape flags, component owner), every render and render_block — against the
     specification AND against a fresh instance given the resulting set in one batch (the statement's own oracle).
     After a failing call the projection and all renders must equal those taken before the call."""
import json, random
import vp, registry_glue as G

BLOCKS = ["a", "b", "z"]


def observe_steps(names):
    steps = [{"op": "names"}, {"op": "state"}]
    for n in names:
        steps.append({"op": "render", "name": n})
        for b in BLOCKS:
            steps.append({"op": "render_block", "name": n, "block": b})
    return steps


def norm_obs(res):
    """observations of observe_steps, reduced to what must be history independent"""
    out = []
    for r in res:
        if "names" in r:
            out.append(("names", tuple(r["names"])))
        elif "state" in r:
            st = r["state"]
            out.append(("state", json.dumps({"t": [{k: t[k] for k in ("name", "parents", "ae", "lineage", "bytes")} for t in st["templates"]],
                                             "c": [[c["name"], c["tpl"]] for c in st["components"]]}, sort_keys=True)))
        else:
            out.append((r.get("ok"), r.get("out") if r.get("ok") else r.get("kind")))
    return out


def batch_src(batch):
    return [[n, G.src(n, d)] for n, d in batch]


def present(pre):
    return {n: d for n, d in pre.items() if d["here"]}


def second_history(pre, rnd):
    """another way to reach the same set: singles in dependency order, with failing attempts and re-adds in between"""
    pres = present(pre)
    names = list(pres)
    rnd.shuffle(names)
    def deps(d):
        out = set()
        for t in (d["ext"], d["inc"]):
            if t:
                out |= {t, "p/" + t}
        if d["usec"]:
            out |= {n for n, x in pres.items() if x["comp"]}
        return out
    order, done = [], set()
    while len(done) < len(pres):
        prog = False
        for n in names:
            if n not in done and all((q not in pres) or (q in done) or q == n for q in deps(pres[n])):
                order.append(n)
                done.add(n)
                prog = True
        if not prog:
            return None
    hist = []
    for n in order:
        if rnd.random() < 0.5:
            hist.append([[rnd.choice(["A", "B", "C.h"]), "{% if %}"]])              # syntax error
        if rnd.random() < 0.3:
            hist.append([[n, "{% extends 'nope' %}"]])                              # missing parent
        if rnd.random() < 0.3:
            hist.append([[n, "{{ 1 | nofilter }}"]])                                # unknown filter
        if rnd.random() < 0.25:
            hist.append([[n, "L" + n + ";temporary"]])                              # a valid version replaced right after
        hist.append([[n, G.src(n, pres[n])]])
    return hist


def run(tier):
    C = vp.Check("C10", tier, "model_checking")
    universe = "small" if tier == "quick" else "full"
    with open(vp.SPEC + "/MC_Registry_run.cfg", "w") as f:
        f.write(open(vp.SPEC + "/MC_Registry.cfg").read().replace('Universe = "small"', 'Universe = "%s"' % universe))
    r = vp.tlc("MC_Registry", "MC_Registry_run", workers=4, timeout=3000, name="c10", xmx="16g", lazy=("EDGE",))
    C.add_tlc(r, "MC_Registry universe=%s" % universe)
    edges = r.tags["EDGE"]          # JSON texts, decoded when chosen (there are 10^5 .. 10^6 of them)
    C.cov["rule"] = ("every transition TLC explores in the registry state machine (3 names, %d-descriptor universe, batches of <= 2, 2 suffix sets), "
                     "each replayed from 2 histories; non-trivial = distinct (pre, action) where pre is non-empty or the action is refused" % (13 if universe == "small" else 16))
    rnd = random.Random(vp.seed() + 5)
    limit = 25000 if tier == "quick" else 120000
    n_explored = len(edges)
    if len(edges) <= limit:
        edges = [json.loads(x) for x in edges]
    if len(edges) > limit:
        # kept in any case: transitions that involve the same-length text variant, and (up to 12000) "dependent
        # replacements" -- the call re-registers a name that another present template extends, includes or takes a component
        # from: where stale derived data would show.  The rest of the budget is a VERIF_SEED sample of the other transitions.
        def dependent(e):
            if e["act"]["kind"] != "add":
                return False
            pre = e["pre"]
            for n, _ in e["act"]["batch"]:
                for m, dm in pre.items():
                    if m != n and dm.get("here") and (dm.get("ext") == n or dm.get("inc") == n or (dm.get("usec") and pre.get(n, {}).get("comp"))):
                        return True
            return False
        isv2 = lambda e: '"v2": true' in json.dumps(e.get("act")) or '"v2": true' in json.dumps(e.get("pre"))
        keep, dep, rest = [], [], []          # indices; every text is decoded once to classify it, and again only if chosen
        for i_, raw in enumerate(edges):
            e_ = json.loads(raw)
            (keep if isv2(e_) else dep if dependent(e_) else rest).append(i_)
        keep = keep if len(keep) <= 4000 else rnd.sample(keep, 4000)
        cap_dep = 12000 if tier == "quick" else 60000
        dep = dep if len(dep) <= cap_dep else rnd.sample(dep, cap_dep)
        C.cov["dependent_replacements_kept"] = len(dep)
        chosen = keep + dep + rnd.sample(rest, max(0, limit - len(keep) - len(dep)))
        edges = [json.loads(edges[i_]) for i_ in chosen]
        C.cov["exhaustive"] = False
        C.notes.append("replayed a VERIF_SEED sample of %d of %d explored transitions" % (limit, n_explored))
    else:
        C.cov["exhaustive"] = True
    # chains of depth 4 (Universe "chain": names A, B, C.h, D; single adds): all transitions
    with open(vp.SPEC + "/MC_Registry_run.cfg", "w") as f:
        f.write(open(vp.SPEC + "/MC_Registry.cfg").read().replace('Universe = "small"', 'Universe = "chain"').replace('Names = {"A", "B", "C.h"}', 'Names = {"A", "B", "C.h", "D"}'))
    del r
    rc = vp.tlc("MC_Registry", "MC_Registry_run", workers=4, timeout=3000, name="c10-chain", xmx="16g")
    C.add_tlc(rc, "MC_Registry universe=chain (4 names, single adds)")
    cedges = rc.tags["EDGE"]
    if tier == "quick" and len(cedges) > 6000:
        cedges = rnd.sample(cedges, 6000)
    edges = edges + cedges
    jobs, meta = [], []
    for ei, e in enumerate(edges):
        names = sorted(e["pre"].keys())
        pre, act = e["pre"], e["act"]
        pres = present(pre)
        base_cfg = {"prefixes": ["p/"], "autoescape": [".h"]}
        h1 = [batch_src(list(pres.items()))] if pres else []
        h2 = second_history(pre, rnd)
        modes = [("batch", h1), ("steps", h2)]
        if act["kind"] == "add" and not act["ok"]:
            # the refused call once more, naming each of its templates TWICE (an innocent, escaping-sensitive first version,
            # then the real one): still refused, and still nothing of it stays
            modes.append(("dup", h1))
        for mode, hist in modes:
            if hist is None:
                continue
            steps = [{"op": "add", "tpls": b} for b in hist if b]
            npre = len(steps)
            steps.append({"op": "autoescape", "suffixes": sorted(e["presfx"])})
            steps += observe_steps(names)
            nobs = len(observe_steps(names))
            if act["kind"] == "add":
                # the second history applies the call through add_template_files (same contract, other entry point)
                real = batch_src(act["batch"])
                if mode == "dup":
                    real = [[n, "D" + n + ";{{ '<' }}"] for n, _ in real] + real
                steps.append(dict({"op": "add", "tpls": real}, **({"via": "files"} if mode == "steps" else {})))
            else:
                steps.append({"op": "autoescape", "suffixes": sorted(act["s"])})
            steps += observe_steps(names)
            jobs.append({"cfg": base_cfg, "steps": steps})
            meta.append((ei, mode, npre, nobs))
        # the fresh instance given the resulting set in one batch
        post_set = {}
        if act["kind"] == "add" and act["ok"]:
            post_set = dict(pres)
            for n, d in act["batch"]:
                post_set[n] = d
        else:
            post_set = pres
        sfx = sorted(act["s"]) if act["kind"] == "ae" else sorted(e["presfx"])
        steps = ([dict({"op": "add", "tpls": batch_src(list(post_set.items()))}, **({"via": "files"} if ei % 2 else {}))] if post_set else []) + [{"op": "autoescape", "suffixes": sfx}] + observe_steps(names)
        jobs.append({"cfg": base_cfg, "steps": steps})
        meta.append((ei, "fresh", 1 if post_set else 0, len(observe_steps(names))))
    res = vp.run_jobs(jobs, tag="c10", timeout=3000)
    fresh = {}
    for (ei, mode, npre, nobs), rr in zip(meta, res):
        if mode == "fresh":
            fresh[ei] = norm_obs(rr[npre + 1:])
    for (ei, mode, npre, nobs), rr, job in zip(meta, res, jobs):
        if mode == "fresh":
            continue
        e = edges[ei]
        names = sorted(e["pre"].keys())
        act = e["act"]
        C.count()
        key = {"pre": {n: G.src(n, d) for n, d in present(e["pre"]).items()}, "act": batch_src(act["batch"]) if act["kind"] == "add" else act["s"], "history": mode}
        if any(x.get("panic") or x.get("abort") for x in rr):
            C.violation(dict(key, kind="panic"), "panic during history %s" % json.dumps(key)[:300], {"job": job, "result": rr})
            continue
        if present(e["pre"]) or (act["kind"] == "add" and not act["ok"]):
            C.nontrivial([e["pre"], act])
        before = norm_obs(rr[npre + 1: npre + 1 + nobs])
        a = rr[npre + 1 + nobs]
        after = norm_obs(rr[npre + 2 + nobs:])
        # the history must have established `pre` (its intended adds succeed: the last add of each name)
        if act["kind"] == "add":
            if a.get("ok") != act["ok"]:
                C.violation(dict(key, kind="acceptance"), "add of %s on %s: engine %s, specification %s %s" % (
                    key["act"], key["pre"], "accepts" if a.get("ok") else "refuses (%s)" % a.get("kind"), "accepts" if act["ok"] else "refuses", act["fails"]),
                    {"job": job, "expected": act, "got": a})
                continue
            if not act["ok"]:
                cls = a.get("kind")
                okcls = set(act["fails"]) | ({"Msg"} if False else set())
                if cls not in okcls:
                    C.violation(dict(key, kind="class"), "add of %s on %s refused with %s, the applicable classes are %s" % (key["act"], key["pre"], cls, act["fails"]),
                                {"job": job, "expected": act, "got": a})
                if after != before:
                    C.violation(dict(key, kind="atomicity"), "a refused add changed the instance: add of %s on %s (history %s)" % (key["act"], key["pre"], mode),
                                {"job": job, "before": before, "after": after})
        # history independence: equal to the fresh instance with the resulting set
        if after != fresh[ei]:
            diff = [(x, y) for x, y in zip(after, fresh[ei]) if x != y][:2]
            C.violation(dict(key, kind="history"), "after %s on %s (history %s) the instance differs from a fresh one given the same set: %s" % (
                key["act"], key["pre"], mode, diff), {"job": job, "after": after, "fresh": fresh[ei]})
        # the specification's own prediction of the post state
        post = e["post"]
        obs = rr[npre + 2 + nobs:]
        st = {t["name"]: t for t in obs[1]["state"]["templates"]}
        if tuple(obs[0]["names"]) != tuple(sorted(n for n in names if post[n]["here"])):
            C.violation(dict(key, kind="names"), "template names %s, specification %s" % (obs[0]["names"], [n for n in names if post[n]["here"]]), {"job": job})
            continue
        k = 2
        for n in names:
            p = post[n]
            rnd_, blocks = obs[k], obs[k + 1:k + 1 + len(BLOCKS)]
            k += 1 + len(BLOCKS)
            if not p["here"]:
                if rnd_.get("ok") or rnd_.get("kind") != "TemplateNotFound":
                    C.violation(dict(key, kind="absent", tpl=n), "%s should be absent but render gives %s" % (n, rnd_), {"job": job})
                continue
            t = st[n]
            lin = {x["b"]: x["from"] for x in t["lineage"]}
            want_lin = {b: p["lin"][b] for b in BLOCKS if p["lin"][b]}
            if t["parents"] != p["parents"] or t["ae"] != p["ae"] or lin != want_lin:
                C.violation(dict(key, kind="projection", tpl=n), "registry projection of %s: parents %s ae %s lineage %s; specification: parents %s ae %s lineage %s" % (
                    n, t["parents"], t["ae"], lin, p["parents"], p["ae"], want_lin), {"job": job})
            check_text(C, key, job, n, "render", rnd_, p["text"])
            for b, x in zip(BLOCKS, blocks):
                if "!" not in p["text"]:    # when the full render is an error, what a block "writes during it" is not demanded
                    check_text(C, key, job, n, "render_block(%s)" % b, x, p["blocks"][b])
        owner = e["owner"]
        comps = obs[1]["state"]["components"]
        if (comps[0]["tpl"] if comps else "") != owner:
            C.violation(dict(key, kind="owner"), "component owner %s, specification %r" % (comps, owner), {"job": job})
    k = len(edges) // 2
    C.sample({"pre": {n: G.src(n, d) for n, d in present(edges[k]["pre"]).items()}, "action": edges[k]["act"], "post_text": {n: edges[k]["post"][n].get("text") for n in sorted(edges[k]["pre"].keys())}})
    C.assumptions += ["descriptor universe of MC_Registry.tla; names A, B, C.h and prefix p/",
                      "which of several applicable error classes is reported is not demanded",
                      "`include` of a template that extends another one is unspecified (text not compared)"]
    return C.finish()


def check_text(C, key, job, n, what, x, want):
    if "?" in want:
        return
    if "!nosuper!" in want or "!noblock!" in want or "!loop!" in want:
        if x.get("ok"):
            C.violation(dict(key, kind="text", tpl=n, op=what), "%s of %s gives %r, the specification says error (%s)" % (what, n, x.get("out"), want), {"job": job, "expected": want, "got": x})
    elif not x.get("ok") or x.get("out") != want:
        C.violation(dict(key, kind="text", tpl=n, op=what), "%s of %s: engine %s, specification %r" % (
            what, n, repr(x.get("out")) if x.get("ok") else "error: " + (x.get("msg") or x.get("disp", ""))[:100], want), {"job": job, "expected": want, "got": x})


def replay(path):
    d = json.load(open(path))
    print(json.dumps(vp.run_jobs([d["replay"]["job"]], tag="replay"), indent=1)[:6000])
    return 0
