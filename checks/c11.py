"""C11 — cyclic or dangling template graphs are rejected; accepted graphs render finitely.

M    TLC (MC_Graph): on every graph in bounds, Registry!Accept holds iff no extends/include target dangles and both
     relations are acyclic (InvAcceptIsAcyclic ties the failure-class formulation to the graph-theoretic one).
S→I  every graph (N nodes; per node an extends and an include edge to any node, itself, a node reachable only through
     the fallback prefix, or a missing template; include placed in body / block / component body) is registered as
     one batch (both orders); oracle: accepted iff the specification accepts, error class among the applicable ones;
     every node of an accepted graph is rendered in a process that is watched for aborts and hangs, and must give
     the text of the declarative render.  Chains of depth 32 are added explicitly.
     MC_IncGraph: sets of include targets per template (diamonds, back edges behind explored siblings).
     MC_Recur: call graphs mixing includes and component calls (recursion that registration does not refuse): the
     specification's call stack stays bounded because the component depth counter is carried across includes
     (MC_Recur_reset.cfg: without that TLC finds the unbounded stack); the engine must end in the same text or in
     an error value on each of the 1250 (graph, entry) pairs."""
import json
import vp, registry_glue as G


def run(tier):
    C = vp.Check("C11", tier, "model_checking")
    runs = [(3, "all")] if tier == "quick" else [(3, "all"), (4, "body")]
    vecs = []
    for n, place in runs:
        with open(vp.SPEC + "/MC_Graph_run.cfg", "w") as f:
            f.write(open(vp.SPEC + "/MC_Graph.cfg").read().replace("N = 3", "N = %d" % n).replace('Place = "all"', 'Place = "%s"' % place))
        r = vp.tlc("MC_Graph", "MC_Graph_run", workers=6, timeout=6000, name="c11-%d" % n, xmx="24g")
        C.add_tlc(r, "MC_Graph N=%d placements=%s" % (n, place))
        vecs += r.tags["VEC"]
    C.cov["exhaustive"] = True
    C.cov["rule"] = ("every assignment of (extends target, include target, include placement) to %s nodes, targets = nodes, self, prefix-only node, missing; "
                     "non-trivial = distinct graph with at least one edge" % " / ".join(str(n) for n, _ in runs))
    jobs, meta = [], []
    for vi, v in enumerate(vecs):
        tpls = [[n, G.src(n, d, compname="k")] for n, d in sorted(v["g"].items())]
        for oi, order in enumerate((tpls, list(reversed(tpls)))):
            # the reversed order goes through add_template_files (same contract, other entry point)
            steps = [dict({"op": "add", "tpls": order}, **({"via": "files"} if oi else {}))]
            if v["ok"]:
                steps += [{"op": "render", "name": n} for n, _ in tpls]
            steps.append({"op": "names"})
            jobs.append({"cfg": {"prefixes": ["p/"]}, "steps": steps})
            meta.append((vi, [n for n, _ in tpls]))
        if not v["ok"] and vi % 3 == 0:
            # a refused batch that names a template twice (an innocent first version, then the real one): still nothing stays
            jobs.append({"cfg": {"prefixes": ["p/"]}, "steps": [{"op": "add", "tpls": [[tpls[0][0], "L" + tpls[0][0] + ";first version"], [tpls[-1][0], "another first version"]] + tpls}, {"op": "names"}]})
            meta.append((vi, [n for n, _ in tpls]))
    # include graphs with several include edges per template (MC_IncGraph): diamonds, back edges behind explored siblings
    nn = 3 if tier == "quick" else 4
    with open(vp.SPEC + "/MC_IncGraph_run.cfg", "w") as f:
        f.write(open(vp.SPEC + "/MC_IncGraph.cfg").read().replace("N = 3", "N = %d" % nn))
    ri = vp.tlc("MC_IncGraph", "MC_IncGraph_run", workers=6, timeout=6000, name="c11-inc", xmx="24g")
    C.add_tlc(ri, "MC_IncGraph N=%d (sets of include targets per template)" % nn)
    ivecs = ri.tags["VEC"]
    for ii, v in enumerate(ivecs):
        tpls = [[n, "L" + n + ";" + "".join("{% include '" + t + "' %}" for t in ts)] for n, ts in sorted(v["g"].items())]
        # also with the includes inside a block and inside an if, which must not hide them from the cycle check
        tpls2 = [[n, "L" + n + ";{% block k %}{% if true %}" + "".join("{% include '" + t + "' %}" for t in ts) + "{% endif %}{% endblock %}"] for n, ts in sorted(v["g"].items())]
        for order in (tpls, list(reversed(tpls)), tpls2):
            steps = [{"op": "add", "tpls": order}]
            if v["ok"]:
                steps += [{"op": "render", "name": n} for n, _ in sorted(order)]
            steps.append({"op": "names"})
            jobs.append({"cfg": {}, "steps": steps})
            meta.append((-2 - ii, [n for n, _ in sorted(order)]))
    # explicit deep chains (depth 32): extends, include, include inside a component inside an include
    deep = []
    ext = [["t0", "L{% block a %}0{% endblock %}"]] + [["t%d" % i, "{%% extends 't%d' %%}{%% block a %%}%d{{ super() }}{%% endblock %%}" % (i - 1, i)] for i in range(1, 33)]
    inc = [["i32", "end"]] + [["i%d" % i, "%d{%% include 'i%d' %%}" % (i, i + 1)] for i in range(31, -1, -1)]
    mix = [["m16", "end"]] + [["m%d" % i, "{%% component c%d() %%}[{%% include 'm%d' %%}]{%% endcomponent c%d %%}%d{{<c%d/>}}" % (i, i + 1, i, i, i)] for i in range(15, -1, -1)]
    for name, tpls, entry in (("extends-32", ext, "t32"), ("include-32", inc, "i0"), ("component-include-16", mix, "m0")):
        jobs.append({"cfg": {}, "steps": [{"op": "add", "tpls": tpls}, {"op": "render", "name": entry}]})
        meta.append((-1, name))
    # recursion through component calls and includes (MC_Recur): accepted graphs must end in text or an error value
    rr_ = vp.tlc("MC_Recur", "MC_Recur", workers=4, timeout=600, name="c11-recur")
    C.add_tlc(rr_, "MC_Recur (call stack with the component depth counter carried across includes; InvBounded, InvOutcome)")
    rvecs = rr_.tags["VEC"]
    import recur_glue
    for ri_, v in enumerate(rvecs):
        tpls = recur_glue.templates(v["g"])
        jobs.append({"cfg": {}, "steps": [{"op": "add", "tpls": tpls}] + ([{"op": "render", "name": v["entry"]}] if v["res"] != "refused" else []) + [{"op": "names"}]})
        meta.append((-1000000 - ri_, v["entry"]))
    res = vp.run_jobs(jobs, tag="c11", timeout=3000, may_abort=True)
    for (vi, names), rr, job in zip(meta, res, jobs):
        C.count()
        if vi <= -1000000:
            v = rvecs[-1000000 - vi]
            key = {"recursion_graph": v["g"], "entry": v["entry"]}
            if any(o != "none" for o in v["g"].values()):
                C.nontrivial(["recur", v["g"], v["entry"]])
            if any(x.get("panic") or x.get("abort") for x in rr):
                C.violation(dict(key, kind="abort"), "process died / panicked rendering %s of %s (specification: %s): %s" % (
                    v["entry"], v["g"], v["res"], [x for x in rr if x.get("panic") or x.get("abort")][:1]), {"job": job, "result": rr})
            elif rr[0].get("ok") != (v["res"] != "refused"):
                C.violation(dict(key, kind="acceptance"), "call graph %s: engine %s, specification %s" % (v["g"], "accepts" if rr[0].get("ok") else "refuses (%s)" % rr[0].get("kind"), v["res"]),
                            {"job": job, "got": rr[0]})
            elif v["res"] == "refused":
                if rr[0].get("kind") != "CircularInclude" or rr[-1].get("names"):
                    C.violation(dict(key, kind="class"), "cyclic include graph %s refused with %s, templates left: %s" % (v["g"], rr[0].get("kind"), rr[-1].get("names")), {"job": job})
            elif v["res"] == "text":
                if not rr[1].get("ok") or rr[1].get("out") != v["text"]:
                    C.violation(dict(key, kind="text"), "call graph %s: render of %s gives %r, specification %r" % (
                        v["g"], v["entry"], rr[1].get("out") if rr[1].get("ok") else "error: " + (rr[1].get("msg") or rr[1].get("disp", ""))[:100], v["text"]), {"job": job})
            elif rr[1].get("ok"):
                C.violation(dict(key, kind="noerr"), "call graph %s has a call cycle reachable from %s but the engine renders %r" % (v["g"], v["entry"], rr[1].get("out")), {"job": job})
            continue
        if vi <= -2:
            v = ivecs[-2 - vi]
            C.nontrivial(["inc", v["g"]])
            key = {"include_graph": v["g"]}
            if any(x.get("panic") or x.get("abort") for x in rr):
                C.violation(dict(key, kind="abort"), "process died / panicked on include graph %s: %s" % (v["g"], [x for x in rr if x.get("panic") or x.get("abort")][:1]), {"job": job, "result": rr})
            elif rr[0].get("ok") != v["ok"]:
                C.violation(dict(key, kind="acceptance"), "include graph %s: engine %s, specification %s" % (v["g"], "accepts" if rr[0].get("ok") else "refuses (%s)" % rr[0].get("kind"),
                                                                                                           "accepts (acyclic)" if v["ok"] else "refuses (cyclic)"), {"job": job, "got": rr[0]})
            elif not v["ok"]:
                if rr[0].get("kind") != "CircularInclude" or rr[-1].get("names"):
                    C.violation(dict(key, kind="class"), "cyclic include graph %s refused with %s, templates left: %s" % (v["g"], rr[0].get("kind"), rr[-1].get("names")), {"job": job})
            else:
                for n, x in zip(names, rr[1:]):
                    if not x.get("ok") or x.get("out") != v["text"][n]:
                        C.violation(dict(key, kind="text", tpl=n), "include graph %s: render of %s gives %r, specification %r" % (v["g"], n, x.get("out") if x.get("ok") else x.get("kind"), v["text"][n]), {"job": job})
            continue
        if vi < 0:
            C.nontrivial(names)
            if not all(x.get("ok") for x in rr):
                C.violation({"kind": "deep", "chain": names}, "chain %s: %s" % (names, [x.get("kind") or x for x in rr if not x.get("ok")][:2]), {"job": job, "result": rr})
            continue
        v = vecs[vi]
        if any(d["ext"] or d["inc"] for d in v["g"].values()):
            C.nontrivial(v["g"])
        key = {"graph": {n: [d["ext"], d["inc"], d["incpos"]] for n, d in v["g"].items()}}
        if any(x.get("panic") or x.get("abort") for x in rr):
            C.violation(dict(key, kind="abort"), "process died / panicked on graph %s: %s" % (key["graph"], [x for x in rr if x.get("panic") or x.get("abort")][:1]), {"job": job, "result": rr})
            continue
        a = rr[0]
        if a.get("ok") != v["ok"]:
            C.violation(dict(key, kind="acceptance"), "graph %s: engine %s, specification %s %s" % (
                key["graph"], "accepts" if a.get("ok") else "refuses (%s)" % a.get("kind"), "accepts" if v["ok"] else "refuses", v["fails"]), {"job": job, "expected": v, "got": a})
            continue
        if not v["ok"]:
            if a.get("kind") not in v["fails"]:
                C.violation(dict(key, kind="class"), "graph %s refused with %s; applicable: %s" % (key["graph"], a.get("kind"), v["fails"]), {"job": job, "got": a})
            if rr[-1].get("names"):
                C.violation(dict(key, kind="partial"), "a refused set left templates registered: %s" % rr[-1]["names"], {"job": job})
            continue
        for n, x in zip(names, rr[1:]):
            want = v["text"][n]
            if "?" in want:
                continue
            if "!" in want:
                if x.get("ok"):
                    C.violation(dict(key, kind="text", tpl=n), "render of %s gives %r, specification %r" % (n, x.get("out"), want), {"job": job})
            elif not x.get("ok") or x.get("out") != want:
                C.violation(dict(key, kind="text", tpl=n), "graph %s: render of %s: engine %s, specification %r" % (
                    key["graph"], n, repr(x.get("out")) if x.get("ok") else "error: " + (x.get("msg") or x.get("disp", ""))[:100], want), {"job": job, "expected": want, "got": x})
    k = len(vecs) // 2
    C.sample({"graph": {n: G.src(n, d, "k") for n, d in vecs[k]["g"].items()}, "accepted": vecs[k]["ok"], "fails": vecs[k]["fails"]})
    C.assumptions += ["which applicable error class is reported is not demanded", "termination is observed with a 50 minute wall-clock limit per batch of jobs and process-exit monitoring",
                      "`include` of a template that extends another one: text not compared"]
    late_prefixes(C)
    return C.finish()


def late_prefixes(C):
    """set_fallback_prefixes AFTER templates were added: the call may refuse; if it answers Ok the instance is the one a fresh
    instance with the new prefixes and the same templates would be -- in particular not one holding an extends / include
    cycle or a dangling target -- and if it refuses, nothing changed.  Rendering comes back in every case."""
    import itertools
    SETS = {"include-cycle": [["a.html", "A{% include 'p.html' %}"], ["x/p.html", "XP"], ["y/p.html", "YP{% include 'a.html' %}"]],
            "extends-cycle": [["a.html", "{% extends 'p.html' %}"], ["x/p.html", "XP{% block b %}{% endblock %}"], ["y/p.html", "{% extends 'a.html' %}"]],
            "dangling": [["a.html", "A{% include 'q.html' %}"], ["x/q.html", "XQ"]],
            "dangling-parent": [["a.html", "{% extends 'q.html' %}"], ["x/q.html", "XQ"]],
            "benign": [["a.html", "A{% include 'p.html' %}"], ["x/p.html", "XP"], ["y/p.html", "YP"]],
            "component-provider": [["a.html", "A{{<k/>}}"], ["x/c.html", "{% component k() %}XK{% endcomponent k %}"], ["y/c.html", "{% component k() %}YK{% endcomponent k %}"]]}
    news = [[], ["x/"], ["y/"], ["x/", "y/"], ["y/", "x/"]]
    jobs, meta = [], []
    for sname, tpls in SETS.items():
        names = [n for n, _ in tpls]
        obs = [{"op": "render", "name": n} for n in names] + [{"op": "names"}]
        for order in (tpls, list(reversed(tpls))):
            for new in news:
                jobs.append({"cfg": {"prefixes": ["x/", "y/"]}, "steps": [{"op": "add", "tpls": order}] + obs + [{"op": "prefixes", "list": new}] + obs})
                jobs.append({"cfg": {"prefixes": new}, "steps": [{"op": "add", "tpls": order}] + obs})
                meta.append((sname, new, len(obs)))
    res = vp.run_jobs(jobs, tag="c11-late-prefixes", timeout=900, may_abort=True)
    strip = lambda rs: [(bool(x.get("ok")), x.get("out"), x.get("names")) for x in rs]
    for k, (sname, new, nobs) in enumerate(meta):
        live, fresh = res[2 * k], res[2 * k + 1]
        job = jobs[2 * k]
        C.count()
        C.nontrivial(["late-prefixes", sname, new, k % 2])
        key = {"kind": "late-prefixes", "set": sname, "new": new}
        if any(x.get("panic") or x.get("abort") for x in live):
            C.violation(dict(key, kind="late-prefixes-abort"), "changing the fallback prefixes of %s to %s and rendering killed the process / panicked: %s" % (
                sname, new, [x.get("msg") or x.get("rc") for x in live if x.get("panic") or x.get("abort")][:1]), {"job": job})
            continue
        if not live[0].get("ok"):
            C.violation(dict(key, kind="late-prefixes-setup"), "the initial set %s is refused: %s" % (sname, (live[0].get("msg") or "")[:120]), {"job": job})
            continue
        before, call, after = strip(live[1:1 + nobs]), live[1 + nobs], strip(live[2 + nobs:])
        if not call.get("ok"):
            if after != before:
                C.violation(dict(key, kind="late-prefixes-refused-changed"), "set_fallback_prefixes(%s) on %s refused but the instance changed: %s -> %s" % (new, sname, before, after), {"job": job})
        elif not fresh[0].get("ok"):
            C.violation(dict(key, kind="late-prefixes-accepted"), "set_fallback_prefixes(%s) on %s answers Ok, but a fresh instance with these prefixes refuses the same templates (%s): the instance now holds a set that is not acceptable" % (
                new, sname, (fresh[0].get("msg") or fresh[0].get("disp") or "")[:120]), {"job": job, "after": after})
        elif after != strip(fresh[1:]):
            C.violation(dict(key, kind="late-prefixes-differs"), "set_fallback_prefixes(%s) on %s answers Ok, but the instance differs from a fresh one with these prefixes: %s vs %s" % (new, sname, after, strip(fresh[1:])), {"job": job})


def replay(path):
    d = json.load(open(path))
    print(json.dumps(vp.run_jobs([d["replay"]["job"]], tag="replay", may_abort=True), indent=1)[:6000])
    return 0
