"""C12 — errors identify the right template and source position and always display.

M/I→S (Spans.tla) Consistent(span): inside the source, on character boundaries, line/column designating the same
     positions as the byte range; Localises(span, fault): covers the planted fault; RightTemplate; Quoted; Notes.
S→I  TLC (MC_Spans) enumerates fault plantings: 17 rendering faults and 12 syntax faults x host (entry, included template,
     parent's block, child's block calling super(), parent's block reached through super(), component body, component
     reached through an include) x position (after ASCII / 2- / 3- / 4-byte prefixes, on line 2, on line 3 after multi-byte
     lines; one fault spans a newline).  The harness builds the template sets, renders (optimiser on and off) and records
     every error; TLC checks every recorded observation against the five predicates (one configuration per predicate so
     that each broken one is reported)."""
import json, os, re
import vp

RFAULT = {  # fault text F, context needs
    "undefined-var": "{{ nope }}", "undefined-field": "{{ m.x.y }}", "math-on-string": "{{ 1 + 'a' }}", "divide-by-zero": "{{ 1 / 0 }}",
    "filter-receiver": "{{ 1 | upper }}", "filter-missing-arg": "{{ 'a' | replace }}", "iterate-scalar": "{% for i in 1 %}{% endfor %}",
    "compare": "{{ 1 < 'a' }}", "bad-subscript": "{{ [1]['a'] }}", "throw": "{{ throw(message='x') }}", "negate-string": "{{ -'a' }}",
    "slice-step-zero": "{{ [1][::0] }}", "component-missing-arg": "{{<need />}}", "unknown-path-in-set": "{% set v = m.x.y %}",
    "across-newline": "{{ 1 +\n 'a' }}", "spread-non-map": "{{ {...1} }}", "in-scalar": "{{ 1 in 2 }}",
    "set-block-first-filter": "{% set sv | round | int %}3.7{% endset %}",
}
SFAULT = {"dangling-operator": "{{ 1 + }}", "empty-if": "{% if %}x{% endif %}", "stray-endfor": "{% endfor %}", "unterminated-string": "{{ 'abc }}",
          "unknown-tag": "{% foo %}", "double-dot": "{{ a..b }}", "unclosed-expression": "{{ 1", "unclosed-tag": "{% if 1", "missing-endif": "{% if 1 %}x",
          "bad-filter-call": "{{ 1 | abs( }}", "assign-keyword": "{% set = 1 %}", "unclosed-comment": "{# c",
          # the same unterminated constructs when the source ends with a newline (the error sits on a last, empty line)
          "unclosed-tag-nl": "{% if 1\n", "unclosed-expression-nl": "{{ 1\n", "missing-endif-nl": "{% if 1 %}x\n", "unclosed-comment-nl": "{# c\n\n"}
# the offending token inside the fault text, where there is no doubt which one it is
FOCUS = {"undefined-var": "nope", "undefined-field": "x", "unknown-path-in-set": "x", "filter-missing-arg": "replace", "component-missing-arg": "need",
         "divide-by-zero": "0", "bad-subscript": "'a'", "iterate-scalar": " 1 ", "in-scalar": "2", "spread-non-map": "1",
         "set-block-first-filter": "round"}
# errors raised on the result of a sub-expression (MC_Spans!ProdKind / ConsAccepts): operand text, consumer with the operand as P
from sites import PROD, CONS
from sites import OKCOMP


def units_of(F):
    """what a span may not cut in two: the tokens (names, numbers, strings) and the {..} groups of the fault text
    (parentheses, and the closing bracket of a subscript, are not part of an expression's span in this engine: not units)"""
    blank = re.sub(r"\{\{|\}\}|\{%|%\}", "  ", F)
    units = [(m.start(), m.end()) for m in re.finditer(r"'[^']*'|[A-Za-z_][A-Za-z_0-9]*|\d+(?:\.\d+)?", blank)]
    quoted = [(a, b) for a, b in units if blank[a] == "'"]
    stack = []
    for i, ch in enumerate(blank):
        if any(a < i < b for a, b in quoted):
            continue
        if ch == "{":
            stack.append(i)
        elif ch == "}" and stack:
            units.append((stack.pop(), i + 1))
    return units


def fault_text(name):
    """-> (fault text, [unit texts])"""
    if name.startswith("site:"):
        _, pn, cn = name.split(":")
        F = CONS[cn].replace("P", PROD[pn])
        return F, units_of(F)
    return RFAULT[name], []


PREFIX = {"none": "", "ascii": "ab ", "two-byte": "é", "three-byte": "世世", "four-byte": "\U0001F600", "line2": "x\n", "line3-multibyte": "é\n世 \n  "}
NEED = "{% component need(a) %}{{ a }}{% endcomponent need %}"
ONECHAR = ["\u00ab", "\u00bb", "\u00bf", "\u00a1", "\u00a7", "\u00b6"]      # block start/end, variable start/end, comment start/end
_RESPELL = {"{%": ONECHAR[0], "%}": ONECHAR[1], "{{": ONECHAR[2], "}}": ONECHAR[3], "{#": ONECHAR[4], "#}": ONECHAR[5]}


def respell(src):
    return re.sub(r"\{\{|\}\}|\{%|%\}|\{#|#\}", lambda m: _RESPELL[m.group(0)], src)


def build(v):
    """-> (templates, entry, host name, host source, fault range in host, call sites [(template, call text)])"""
    F, unit_texts = (SFAULT[v["fault"]], []) if v["syntax"] else fault_text(v["fault"])
    body = PREFIX[v["prefix"]] + F
    tail = "" if v["syntax"] else " tail\n"
    host = v["host"]
    tpls = [["need.html", NEED], ["ok.html", OKCOMP]]
    sites = []
    if host == "entry":
        hn, hs = "entry.html", "E " + body + tail
        tpls.append([hn, hs])
        entry = hn
    elif host == "included":
        hn, hs = "inc.html", "I " + body + tail
        tpls += [[hn, hs], ["entry.html", "top\n é {% include 'inc.html' %} after"]]
        entry = "entry.html"
        sites = [("entry.html", "{% include 'inc.html' %}")]
    elif host in ("included-in-filter-section", "included-in-set-block", "included-in-component-call-body", "included-in-loop"):
        hn, hs = "inc.html", "I " + body + tail
        call = "{% include 'inc.html' %}"
        wrap = {"included-in-filter-section": "{% filter upper %}a " + call + "{% endfilter %}", "included-in-set-block": "{% set v %}" + call + "{% endset %}{{ v }}",
                "included-in-component-call-body": "{% <wrap> %}b " + call + "{% </wrap> %}", "included-in-loop": "{% for i in [1, 2] %}" + call + "{% endfor %}"}[host]
        tpls += [["w.html", "{% component wrap() %}{{ body }}{% endcomponent wrap %}"], [hn, hs], ["entry.html", "top é\n" + wrap + " after"]]
        entry = "entry.html"
        sites = [("entry.html", call)]
    elif host == "included-twice-nested":
        hn, hs = "inc.html", "I " + body + tail
        tpls += [[hn, hs], ["mid.html", "{% set v %}m {% include 'inc.html' %}{% endset %}{{ v }}"], ["entry.html", "x {% filter upper %}{% include 'mid.html' %}{% endfilter %}"]]
        entry = "entry.html"
        sites = [("mid.html", "{% include 'inc.html' %}"), ("entry.html", "{% include 'mid.html' %}")]
    elif host == "component-in-capture":
        hn, hs = "comp.html", "{% component k() %}C " + body + tail + "{% endcomponent k %}"
        tpls += [[hn, hs], ["entry.html", "é {% set v %}{{<k/>}}{% endset %}{{ v }}"]]
        entry = "entry.html"
        sites = [("entry.html", "{{<k/>}}")]
    elif host == "parent-block":
        hn, hs = "parent.html", "P{% block b %}" + body + tail + "{% endblock %}Q"
        tpls += [[hn, hs], ["entry.html", "{% extends 'parent.html' %}"]]
        entry = "entry.html"
    elif host == "child-block-with-super":
        hn, hs = "entry.html", "{% extends 'parent.html' %}{% block b %}{{ super() }}" + body + tail + "{% endblock %}"
        tpls += [["parent.html", "P{% block b %}pb{% endblock %}Q"], [hn, hs]]
        entry = hn
    elif host == "parent-block-via-super":
        hn, hs = "parent.html", "P{% block b %}" + body + tail + "{% endblock %}Q"
        tpls += [[hn, hs], ["entry.html", "{% extends 'parent.html' %}{% block b %}c{{ super() }}{% endblock %}"]]
        entry = "entry.html"
    elif host == "component-with-body":
        hn, hs = "comp.html", "{% component k() %}C " + body + tail + "{% endcomponent k %}"
        tpls += [[hn, hs], ["entry.html", "one\ntwo é {% <k> %}b{{ 1 }}{% </k> %} end"]]
        entry = "entry.html"
        sites = [("entry.html", "{% <k> %}")]
    elif host == "component":
        hn, hs = "comp.html", "{% component k() %}C " + body + tail + "{% endcomponent k %}"
        tpls += [[hn, hs], ["entry.html", "one\ntwo é {{<k/>}} end"]]
        entry = "entry.html"
        sites = [("entry.html", "{{<k/>}}")]
    else:
        hn, hs = "comp.html", "{% component k() %}C " + body + tail + "{% endcomponent k %}"
        tpls += [[hn, hs], ["inc.html", "世 {{<k/>}}"], ["entry.html", "x {% include 'inc.html' %}"]]
        entry = "entry.html"
        sites = [("inc.html", "{{<k/>}}"), ("entry.html", "{% include 'inc.html' %}")]
    if v.get("delims") == "one-char-2-byte":
        tpls = [[n, respell(t)] for n, t in tpls]
        hs, body, F = respell(hs), respell(body), respell(F)
        sites = [(t, respell(c)) for t, c in sites]
    fs = len(hs[:hs.index(body) + len(PREFIX[v["prefix"]])].encode())
    fe = fs + len(F.encode())
    build.units = [[fs + len(F[:a].encode()), fs + len(F[:b].encode())] for a, b in unit_texts]
    foc = None if v["syntax"] else FOCUS.get(v["fault"])
    if "component" in v["host"] and v["fault"] in ("undefined-field", "unknown-path-in-set"):
        foc = None            # a component does not see the context: there the undefined thing is `m` itself
    if foc:
        xs_ = fs + len(F[:F.index(foc)].encode()) + (len(foc) - len(foc.lstrip()))
        build.focus = (xs_, xs_ + len(foc.strip().encode()))
    else:
        build.focus = (0, 0)
    return tpls, entry, hn, hs, fs, fe, sites


def facts(src):
    b = src.encode()
    bounds, off = [], 0
    for ch in src:
        bounds.append(off)
        off += len(ch.encode())
    bounds.append(off)
    return {"len": len(b), "bounds": bounds, "nls": [i for i, c in enumerate(b) if c == 10]}


def run(tier):
    C = vp.Check("C12", tier, "exploration")
    r = vp.tlc("MC_Spans", "MC_Spans", env={"OBS": ""}, workers=4, timeout=600, name="c12-plant")
    C.add_tlc(r, "MC_Spans (fault plantings)")
    C.cov["rule"] = ("fault kind (17 rendering + 12 syntax) x host (7 / 4) x position prefix (7) x delimiter set (default, six one-character 2-byte delimiters), each rendered with the optimiser on and off; non-trivial = distinct planting that produced an error")
    jobs, meta = [], []
    for v in r.tags["VEC"]:
        tpls, entry, hn, hs, fs, fe, sites = build(v)
        focus = build.focus
        units = build.units
        for opt in (True, False):
            cfg = {"optimize": opt, "autoescape": [".html"]}
            if v.get("delims") == "one-char-2-byte":
                cfg["delims"] = ONECHAR
            jobs.append({"cfg": cfg, "ctx": {"m": {"a": 1}, "xs": [1], "nm": "n", "by": {"$bytes": [65, 66]}}, "steps": [{"op": "add", "tpls": tpls}, {"op": "render", "name": entry}]})
            meta.append((v, dict(tpls), hn, hs, fs, fe, sites, opt, (focus, units)))
    res = vp.run_jobs(jobs, tag="c12", timeout=3000)
    work = vp.workdir("c12")
    op = os.path.join(work, "obs.ndjson")
    recs = []
    with open(op, "w") as f:
        for (v, tpls, hn, hs, fs, fe, sites, opt, (focus, units)), rr, job in zip(meta, res, jobs):
            C.count()
            key = {"fault": v["fault"], "host": v["host"], "prefix": v["prefix"], "optimizer": opt, "delims": v.get("delims", "default")}
            if any(y.get("panic") or y.get("abort") for y in rr):
                C.violation(dict(key, kind="panic"), "panic while reporting %s" % key, {"job": job, "result": rr})
                continue
            x = rr[0] if v["syntax"] else rr[1]
            if v["syntax"] and rr[0].get("ok"):
                C.violation(dict(key, kind="accepted"), "a syntax fault was accepted: %r" % hs, {"job": job})
                continue
            if not v["syntax"] and (not rr[0].get("ok") or x.get("ok")):
                C.violation(dict(key, kind="no-error"), "planted rendering fault did not produce an error (add ok=%s): %s" % (rr[0].get("ok"), key), {"job": job, "result": rr})
                continue
            if "span" not in x:
                C.violation(dict(key, kind="no-span"), "the error carries no template/span (kind %s): %s" % (x.get("kind"), (x.get("disp") or "")[:120]), {"job": job, "result": x})
                continue
            C.nontrivial(key)
            sl, sc, el, ec, s, e = x["span"]
            lines = hs.split("\n")
            disp = x.get("disp") or ""
            o = dict(facts(hs), file=x.get("file"), host=hn, s=s, e=e, sl=sl, sc=sc, el=el, ec=ec, fs=fs, fe=fe, xs=focus[0], xe=focus[1], units=units, syntax=v["syntax"],
                     dispok=bool(x.get("disp_ok")) and bool(disp), shown=[i + 1 for i, ln in enumerate(lines) if ln.strip() and ln in disp],
                     blank=[i + 1 for i, ln in enumerate(lines) if not ln.strip()], notes=[], wantnotes=[t for t, _ in sites], key=key)
            for n in x.get("notes", []):
                src = tpls.get(n["file"], "")
                fc = facts(src)
                nsl, nsc, nel, nec, ns, ne = n["span"]
                ok = 0 <= ns <= ne <= fc["len"] and ns in fc["bounds"] and ne in fc["bounds"] and nsl == 1 + sum(1 for p in fc["nls"] if p < ns)
                call = next((c for t, c in sites if t == n["file"]), None)
                covers = False
                if call and call in src:
                    cs = len(src[:src.index(call)].encode())
                    covers = ns < cs + len(call.encode()) and ne > cs
                o["notes"].append({"file": n["file"], "ok": bool(ok), "covers": bool(covers)})
            if v["syntax"]:
                o["wantnotes"] = []      # call sites are not involved in a registration error
            f.write(json.dumps(o) + "\n")
            recs.append(o)
    for law in ("InvConsistent", "InvLocalises", "InvUncut", "InvRightTemplate", "InvQuoted", "InvNotes"):
        with open(vp.SPEC + "/MC_Spans_run.cfg", "w") as f:
            f.write("INIT Init\nNEXT Next\nINVARIANT %s\nCHECK_DEADLOCK FALSE\n" % law)
        r2 = vp.tlc("MC_Spans", "MC_Spans_run", env={"OBS": op}, workers=8, timeout=3000, name="c12-" + law, allow_fail=True)
        C.add_tlc(r2, "MC_Spans %s over %d recorded errors" % (law, len(recs)))
        if r2.ok:
            continue
        if r2.violated != law:
            raise vp.ToolError("MC_Spans failed: " + r2.error[:300])
        m = re.search(r"/\\ i = (\d+)", r2.out)
        o = recs[int(m.group(1)) - 1] if m else {}
        C.violation(dict(o.get("key", {}), kind=law), "%s is broken for %s: file=%s (host %s) span bytes %s..%s lines %s:%s-%s:%s, fault bytes %s..%s, source length %s, quoted lines %s, notes %s (wanted %s)" % (
            law, o.get("key"), o.get("file"), o.get("host"), o.get("s"), o.get("e"), o.get("sl"), o.get("sc"), o.get("el"), o.get("ec"), o.get("fs"), o.get("fe"), o.get("len"),
            o.get("shown"), o.get("notes"), o.get("wantnotes")), {"observation": o})
    C.cov["traces_validated_against_impl"] = len(recs)
    if recs:
        C.sample({k: recs[len(recs) // 2][k] for k in ("key", "file", "s", "e", "sl", "sc", "fs", "fe")})
    C.assumptions += ["a syntax error may sit anywhere from the planted fault to the end of the source", "the byte range of the planted fault is the whole offending tag/expression",
                      "source facts (character boundaries, newline offsets) are computed by the harness from the text it generated"]
    return C.finish()


def replay(path):
    print(open(path).read()[:3000])
    return 0
