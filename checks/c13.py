"""C13 — integer arithmetic is exact or an error; mixed comparisons are exact.

M    TLC (MC_Arith over BigNum limb integers): the specification's own arithmetic satisfies the division law
     (q*b + r = a, 0 <= r < |b|), commutativity, antisymmetry of CmpNum and agreement of CmpNum with Cmp.
S→I  TLC enumerates MATHEMATICAL values (small integers, 2^k+d around every width boundary, exact dyadic
     floats incl. tiny ones far below the machine epsilon, NaN, +-inf, -0) and emits, for all ordered pairs, the exact result of + - * // % ** / negation
     and of the six comparisons; the harness replays each with the operands in EVERY encoding that can hold
     them (i64/u64/i128/u128/literal/f64) — results must never depend on the representation.  With a float
     operand, / // % fail exactly when the divisor is zero (IsZeroNum) and give a float otherwise."""
import json
import vp

B = 10000


def big(x):
    v = 0
    for limb in reversed(x["m"]):
        v = v * B + limb
    return -v if x["n"] else v


ENCS = [("$i64", -2**63, 2**63 - 1), ("$u64", 0, 2**64 - 1), ("$i128", -2**127, 2**127 - 1), ("$u128", 0, 2**128 - 1)]


def int_encodings(v, tier, full=False):
    out = [(e, {e: str(v)}) for e, lo, hi in ENCS if lo <= v <= hi]
    if -2**63 < v < 2**63:
        out.append(("lit", None))
    if tier == "quick" and len(out) > 2 and not full:
        # two machine encodings (which two rotates with the value, so that every pair of encodings meets across the universe)
        # plus the literal spelling
        lit = [o for o in out if o[0] == "lit"]
        enc = [o for o in out if o[0] != "lit"]
        k = abs(v) % len(enc)
        out = [enc[k], enc[(k + 1 + (abs(v) // 7) % max(1, len(enc) - 1)) % len(enc)]] + lit
        if out[0] is out[1]:
            out = out[1:]
    return out


def num_py(x):
    """specification number -> (python value for bookkeeping, list of encodings)"""
    k = x["k"]
    if k == "int":
        return big(x["v"])
    if k == "nan":
        return float("nan")
    if k == "inf":
        return float("-inf") if x["s"] else float("inf")
    m = 0
    for limb in reversed(x["m"]):
        m = m * B + limb
    f = float(m) * (2.0 ** x["e"])
    assert m < 2**53 and (m == 0 or f != 0.0)
    return -f if x["s"] else f


def f64_enc(f):
    if f != f:
        return {"$f64": "nan"}
    if f in (float("inf"), float("-inf")):
        return {"$f64": "inf" if f > 0 else "-inf"}
    return {"$f64": repr(f)}


def operand(name, v, enc, ctx):
    if enc[0] == "lit":
        return "(%d)" % v if v < 0 else str(v)
    ctx[name] = enc[1]
    return name


def run(tier):
    C = vp.Check("C13", tier, "exploration")
    ks = "{63, 64, 127}" if tier == "quick" else "{31, 32, 53, 63, 64, 127, 128}"
    with open(vp.SPEC + "/MC_Arith_run.cfg", "w") as f:
        f.write(open(vp.SPEC + "/MC_Arith.cfg").read().replace("{63, 64, 127}", ks))
    r = vp.tlc("MC_Arith", "MC_Arith_run", workers=16, timeout=3000, name="c13", xmx="12g")
    C.add_tlc(r, "MC_Arith (laws of the reference arithmetic + enumeration)")
    C.cov["exhaustive"] = True
    C.cov["rule"] = ("all ordered pairs over {0,+-1,+-2,+-3,+-7} U {+-(2^k+d): k in %s, d in -1..1} (+ exact dyadic floats, NaN, +-inf, -0 for comparisons) "
                     "x {+ - * // %% ** / neg, == != < <= > >=} x every operand encoding that can hold the value; "
                     "non-trivial = distinct (operator, a, b) where an operand or the exact result is beyond 2^31" % ks)
    jobs, meta = [], []

    def add(src, ctx, exp, key):
        steps = [{"op": "render_str", "src": src, "auto": False}]
        if len(jobs) % 3 == 0:
            steps.append({"op": "render_str", "src": src, "auto": False, "one_off": True})      # Tera::one_off: same engine, own instance
        jobs.append({"ctx": ctx, "steps": steps})
        meta.append((src, exp, key))

    for v in r.tags["VEC"]:
        if v["mode"] == "int":
            a, b = big(v["a"]), big(v["b"])
            ea, eb = int_encodings(a, tier), int_encodings(b, tier)
            if not ea or not eb:
                continue
            for x in ea:
                for y in eb:
                    for op, res in v["ops"].items():
                        ctx = {}
                        src = "{{ %s %s %s }}" % (operand("a", a, x, ctx), op, operand("b", b, y, ctx))
                        exp = str(big(res["v"])) if res["r"] == "ok" else None
                        add(src, ctx, exp, {"op": op, "a": str(a), "b": str(b), "ea": x[0], "eb": y[0]})
                    # `/` : float quotient, error on zero divisor / operands beyond i128
                    ctx = {}
                    A, Bn = operand("a", a, x, ctx), operand("b", b, y, ctx)
                    fits = -2**127 <= a < 2**127 and -2**127 <= b < 2**127
                    if b == 0 or not fits:
                        add("{{ %s / %s }}" % (A, Bn), ctx, None, {"op": "/", "a": str(a), "b": str(b), "ea": x[0], "eb": y[0]})
                    else:
                        exact = abs(a) <= 2**53 and abs(b) <= 2**53 and a % b == 0
                        src = "{{ (%s / %s) is float }}" % (A, Bn)
                        exp = "true"
                        if exact:
                            ctx["q"] = {"$i128": str(a // b)}
                            src += "{{ %s / %s == q }}" % (A, Bn)
                            exp += "true"
                        add(src, ctx, exp, {"op": "/", "a": str(a), "b": str(b), "ea": x[0], "eb": y[0]})
                if v["neg"]["r"] != "unspec":
                    ctx = {}
                    add("{{ -%s }}" % operand("a", a, x if x[0] != "lit" else ("$i128", {"$i128": str(a)}), ctx), ctx,
                        str(big(v["neg"]["v"])) if v["neg"]["r"] == "ok" else None, {"op": "neg", "a": str(a), "ea": x[0]})
        elif v["mode"] == "pow":
            a = big(v["a"])
            exps = [2**32, 2**64, 2**100] if v["e"] == -2 else [2**32 + 1, 2**64 + 1] if v["e"] == -1 else [v["e"]]
            if v["r"]["r"] == "unspec":
                continue
            for x in int_encodings(a, tier):
                for e in exps:
                    for y in int_encodings(e, tier):
                        ctx = {}
                        src = "{{ %s ** %s }}" % (operand("a", a, x, ctx), operand("b", e, y, ctx))
                        exp = str(big(v["r"]["v"])) if v["r"]["r"] == "ok" else None
                        add(src, ctx, exp, {"op": "**", "a": str(a), "b": ">=2^32" if v["e"] < 0 else str(e), "ea": x[0], "eb": y[0]})
        else:
            pa, pb = num_py(v["a"]), num_py(v["b"])
            # comparisons meet every machine encoding of both operands (a zero held as u128 against a negative float, ...)
            encs_a = int_encodings(pa, tier, True) if v["a"]["k"] == "int" else [("f64", f64_enc(pa))]
            encs_b = int_encodings(pb, tier, True) if v["b"]["k"] == "int" else [("f64", f64_enc(pb))]
            # an integer that is exactly representable may also arrive as a float
            if v["a"]["k"] == "int" and float(pa) == pa and int(float(pa)) == pa and abs(pa) < 2**127:
                encs_a = encs_a + [("f64", f64_enc(float(pa)))]
            c = v["c"]
            exps = {"==": c == 0, "!=": c != 0, "<": c < 0, "<=": c <= 0, ">": c > 0, ">=": c >= 0}
            for x in encs_a:
                for y in encs_b:
                    ctx = {}
                    A = operand("a", pa, x, ctx)
                    Bn = operand("b", pb, y, ctx)
                    src = "".join("{{ %s %s %s }}," % (A, op, Bn) for op in exps)
                    exp = "".join(("true" if t else "false") + "," for t in exps.values())
                    add(src, ctx, exp, {"op": "cmp", "a": str(pa), "b": str(pb), "ea": x[0], "eb": y[0]})
                    # an operation with a float operand is carried out in floating point
                    if (x[0] == "f64" or y[0] == "f64"):
                        fit = all((e[0] == "f64") or (-2**127 <= p < 2**127) for e, p in ((x, pa), (y, pb)))
                        if fit:
                            add("{{ (%s + %s) is float }}{{ (%s - %s) is float }}{{ (%s * %s) is float }}" % (A, Bn, A, Bn, A, Bn), dict(ctx),
                                "truetruetrue", {"op": "float-op", "a": str(pa), "b": str(pb), "ea": x[0], "eb": y[0]})
                            # division with a float operand: an error exactly when the divisor is zero (+0.0, -0.0 or the
                            # integer 0) -- a tiny divisor, NaN or an infinity is not zero -- and a float otherwise
                            for op in ("/", "//", "%"):
                                add("{{ (%s %s %s) is float }}" % (A, op, Bn), dict(ctx), None if v["bzero"] else "true",
                                    {"op": "float" + op, "a": str(pa), "b": str(pb), "ea": x[0], "eb": y[0]})
    res = vp.run_jobs(jobs, tag="c13", timeout=3000)
    for (src, exp, key), rr, job in zip(meta, res, jobs):
        C.count()
        x = rr[0]
        try:
            bigop = any(abs(int(key.get(f, "0"))) >= 2**31 for f in ("a", "b")) or (exp and exp.lstrip("-").isdigit() and abs(int(exp)) >= 2**31)
        except ValueError:
            bigop = True
        if bigop:
            C.nontrivial([key["op"], key.get("a"), key.get("b")])
        if len(rr) == 2 and (rr[1].get("ok"), rr[1].get("out")) != (x.get("ok"), x.get("out")):
            C.violation(dict(key, kind="one-off"), "%s with %s: render_str gives %r, Tera::one_off %r" % (src, job["ctx"], x.get("out") if x.get("ok") else "error", rr[1].get("out") if rr[1].get("ok") else "error"), {"job": job})
        if x.get("panic") or x.get("abort"):
            C.violation(dict(key, kind="panic"), "panic on %s with %s" % (src, job["ctx"]), {"job": job, "result": x})
        elif exp is None:
            if x.get("ok"):
                C.violation(dict(key, kind="noerr"), "%s with %s gives %r; the exact result does not exist/fit: an error is required" % (src, job["ctx"], x.get("out")),
                            {"job": job, "expected": "error", "got": x})
        elif not x.get("ok") or x.get("out") != exp:
            C.violation(dict(key, kind="value"), "%s with %s: engine %s, exact %s" % (
                src, job["ctx"], repr(x.get("out")) if x.get("ok") else "error (%s)" % (x.get("msg") or x.get("disp", ""))[:90], exp),
                {"job": job, "expected": exp, "got": x})
    for k in (len(meta) // 2, 11, len(meta) - 5):
        C.sample({"src": meta[k][0], "ctx": jobs[k]["ctx"], "expected": meta[k][1]})
    C.assumptions += ["the bits of inexact float results are not demanded (IEEE rounding is outside TLA+): float arithmetic is checked for kind only, "
                      "`/` for exactness when |a|,|b| <= 2^53 and b divides a",
                      "`**` with a negative exponent is unspecified (the engine switches to floats)",
                      "integer operands above i128::MAX (only representable as u128) must make integer arithmetic fail"]
    return C.finish()


def replay(path):
    d = json.load(open(path))
    print(json.dumps(vp.run_jobs([d["replay"]["job"]], tag="replay"), indent=1), "\nexpected:", d["replay"].get("expected"))
    return 0
