"""C14 — indexing and slicing follow Python semantics and respect character boundaries.

M    TLC (MC_PySlice): PySlice.tla (transcribed from CPython's slice adjustment) satisfies InRange,
     Monotone, UnitRun and Index-is-a-unit-slice on every vector of the bounded universe.
S→I  every vector (len 0..MaxLen; start/stop in -B..B, absent, +-HUGE; step in absent, 0, +-1..3, +-HUGE) is
     concretised on an integer array and on strings of 1/2/3/4-byte and combining characters, with each
     bound spelled as a literal and as a context value in every integer encoding that can hold it, and
     rendered through the engine; the oracle is the position sequence the specification selects."""
import json, itertools
import vp

ABS, HP, HN = 99, 77, -77
POOLS = {"ascii": "abcde", "multi": "é世\U0001F600ßñ", "comb": "é世̈a"}
# long containers (the LongLens family of MC_PySlice): pairwise distinct characters, so that a selection that is off by one
# character or counted in bytes shows; 12 multi-byte characters are 36 bytes, 24 ASCII ones 24 bytes (both beyond the 23 bytes
# a string holds inline)
LONG = {"ascii": "abcdefghijklmnopqrstuvwxyz", "multi": "".join([chr(0xe0 + i), chr(0x4e16 + i), chr(0x1F600 + i)][i % 3] for i in range(26)),
        "comb": "".join([chr(0x61 + i), chr(0x300 + i)][i % 2] for i in range(26))}
# (the first of each: far out of range, yet congruent modulo 2^64 to a small position -- 1 and -1)
HUGE_P = [("i128-wrap", {"$i128": str(2**64 + 1)}), ("u64", {"$u64": str(2**63)}), ("i128", {"$i128": str(2**127 - 1)}), ("u128-wrap", {"$u128": str(2**64)}), ("i128-wrap2", {"$i128": str(2**65 + 2)})]
HUGE_N = [("i128-wrap", {"$i128": str(-2**64 - 1)}), ("i64", {"$i64": str(-2**63)}), ("i128", {"$i128": str(-2**127)}), ("i128-wrap0", {"$i128": str(-2**64)}), ("i128-wrap2", {"$i128": str(-2**65 - 2)})]


def spell(x, name, ctx, variant):
    """Template text for one bound; may bind a context variable."""
    if x == ABS:
        return ""
    if x == HP:
        ctx[name] = HUGE_P[variant % len(HUGE_P)][1]
        return name
    if x == HN:
        ctx[name] = HUGE_N[variant % len(HUGE_N)][1]
        return name
    if variant == 0:
        return str(x)
    enc = ["$i64", "$i128", "$u64", "$u128"][variant % 4]
    if x < 0 and enc in ("$u64", "$u128"):
        enc = "$i128"
    ctx[name] = {enc: str(x)}
    return name


def run(tier):
    C = vp.Check("C14", tier, "exploration")
    maxlen, maxb = (4, 6) if tier == "thorough" else (3, 4)
    with open(vp.SPEC + "/MC_PySlice_run.cfg", "w") as f:
        f.write(open(vp.SPEC + "/MC_PySlice.cfg").read().replace("MaxLen = 4", "MaxLen = %d" % maxlen).replace("MaxBound = 6", "MaxBound = %d" % maxb))
    r = vp.tlc("MC_PySlice", "MC_PySlice_run", workers=4, timeout=900, name="c14")
    C.add_tlc(r, "MC_PySlice")
    C.cov["exhaustive"] = True
    C.cov["rule"] = ("all (len<=%d, start, stop in -%d..%d/absent/+-HUGE, step in {absent,0,+-1,+-2,+-3,+-HUGE}) slices, all indexings, "
                     "string operations; each on an int array and 3 string pools, bounds as literals and as context values of every integer "
                     "encoding; non-trivial = distinct vector whose container is non-empty" % (maxlen, maxb, maxb))
    jobs, meta = [], []
    for vec in r.tags["VEC"]:
        v, res = vec["v"], vec["r"]
        n = v["len"]
        conts = [("arr", [10 + i for i in range(n)])] + [(pn, list((p if n <= len(p) else LONG[pn])[:n])) for pn, p in POOLS.items()]
        if v["op"] == "slice":
            variants = range(3 if tier == "quick" else 5)
            for var in variants:
                for cn, elems in conts:
                    if tier == "quick" and var > 0 and cn not in ("arr", "multi"):
                        continue
                    ctx = {"x": elems if cn == "arr" else "".join(elems)}
                    a, b, c = spell(v["a"], "a", ctx, var), spell(v["b"], "b", ctx, var), spell(v["c"], "c", ctx, var)
                    src = "{{ x[%s:%s%s] }}" % (a, b, (":" + c) if v["c"] != ABS else "")
                    if res["ok"]:
                        sel = [elems[i] for i in res["s"]]
                        exp = ("[" + ", ".join(str(e) for e in sel) + "]") if cn == "arr" else "".join(sel)
                    else:
                        exp = None
                    jobs.append({"ctx": ctx, "steps": [{"op": "render_str", "src": src, "auto": False}]})
                    meta.append((vec, cn, src, exp))
                    if var == 0 and exp is not None and cn in ("arr", "multi"):
                        # the optional-chaining form on a receiver that IS defined (empty ones included) is the plain form
                        src2 = "{%% if x?[%s:%s%s] is defined %%}%s{%% else %%}UNDEF{%% endif %%}" % (a, b, (":" + c) if v["c"] != ABS else "", src.replace("x[", "x?["))
                        jobs.append({"ctx": ctx, "steps": [{"op": "render_str", "src": src2, "auto": False}]})
                        meta.append((vec, cn, src2, exp))
        elif v["op"] == "index":
            for var in range(3):
                for cn, elems in conts:
                    ctx = {"x": elems if cn == "arr" else "".join(elems)}
                    if v["a"] == HP and var == 2:
                        ctx["i"] = {"$u128": str(2**128 - 1)}
                        i = "i"
                    else:
                        i = spell(v["a"], "i", ctx, var)
                    src = "{%% if x[%s] is defined %%}<{{ x[%s] }}>{%% else %%}UNDEF{%% endif %%}" % (i, i)
                    exp = "<%s>" % elems[res["i"]] if res["def"] else "UNDEF"
                    jobs.append({"ctx": ctx, "steps": [{"op": "render_str", "src": src, "auto": False}]})
                    meta.append((vec, cn, src, exp))
                    if var == 0 and cn in ("arr", "multi"):
                        jobs.append({"ctx": ctx, "steps": [{"op": "render_str", "src": src.replace("x[", "x?["), "auto": False}]})
                        meta.append((vec, cn, src.replace("x[", "x?["), exp))
        else:
            for cn, elems in conts[1:]:
                s = "".join(elems)
                ctx = {"x": s}
                k = v["a"]
                # iteration is measured in characters too: loop.length, loop.index, and loop.last on the last character only
                src = ("{{ x | length }}|{{ x | reverse }}|{%% for ch in x %%}[{{ ch }}]{%% endfor %%}|{{ x | truncate(length=%d, end='~') }}|"
                       "{{ x[::-1] }}|{%% for ch in x %%}{{ loop.index }}/{{ loop.length }}{%% if loop.last %%}L{%% endif %%},{%% endfor %%}" % k)
                exp = "%d|%s|%s|%s|%s|%s" % (n, "".join(elems[i] for i in res["rev"]), "".join("[%s]" % elems[i] for i in res["each"]),
                                             "".join(elems[i] for i in res["trunc"]["keep"]) + ("~" if res["trunc"]["marker"] else ""),
                                             "".join(elems[i] for i in res["rev"]),
                                             "".join("%d/%d%s," % (j + 1, n, "L" if j + 1 == n else "") for j in range(len(res["each"]))))
                jobs.append({"ctx": ctx, "steps": [{"op": "render_str", "src": src, "auto": False}]})
                meta.append((vec, cn, src, exp))
    # string LITERALS (MC_StrLit): escapes and multi-byte characters in one literal, under each quote kind; the decoded text is
    # measured, indexed, reversed and iterated by characters like any other string
    rl = vp.tlc("MC_StrLit", "MC_StrLit", workers=4, timeout=600, name="c14-strlit")
    C.add_tlc(rl, "MC_StrLit (string literals: units x quote kind)")
    SRC = {"a": "a", "e2": "\u00e9", "c3": "\u4e16", "e4": "\U0001F600", "sp": " ", "bn": "\\n", "bt": "\\t", "br": "\\r", "bb": "\\\\", "bs": "\\/", "bq1": "\\'", "bq2": '\\"',
           "bx": "\\x", "b0": "\\0", "q1": "'", "q2": '"'}
    CH = {"a": "a", "e2": "\u00e9", "c3": "\u4e16", "e4": "\U0001F600", "sp": " ", "NL": "\n", "TAB": "\t", "CR": "\r", "BSL": "\\", "SL": "/", "q1": "'", "q2": '"'}
    QS = {"q1": "'", "q2": '"', "q3": "`"}
    seen_l = set()
    for v in rl.tags["VEC"]:
        lit = QS[v["q"]] + "".join(SRC[u] for u in v["units"]) + QS[v["q"]]
        if lit in seen_l:
            continue
        seen_l.add(lit)
        src = "{{ %s | length }}\x1f{{ %s }}\x1f{%% for c in %s %%}[{{ c }}]{%% endfor %%}\x1f{{ %s | reverse }}\x1f{%% if %s[0] is defined %%}{{ %s[0] }}{%% endif %%}" % ((lit,) * 6)
        if v["ok"]:
            t = [CH[c] for c in v["chars"]]
            exp = "%d\x1f%s\x1f%s\x1f%s\x1f%s" % (len(t), "".join(t), "".join("[%s]" % c for c in t), "".join(reversed(t)), t[0] if t else "")
        else:
            exp = None
        jobs.append({"ctx": {}, "steps": [{"op": "render_str", "src": src, "auto": False}]})
        meta.append(({"v": {"op": "literal", "len": len(v["units"]), "a": "".join(v["units"]), "b": v["q"]}}, "literal", src, exp))
    # bounds of a wrong kind: none counts as absent, anything non-integer is an error
    for pos in range(3):
        for kind, val, ok in (("none", None, True), ("float", {"$f64": "1.0"}, False), ("str", "1", False), ("undef", None, False)):
            ctx = {"x": [10, 11, 12]}
            if kind != "undef":
                ctx["w"] = val
            parts = ["", "", ""]
            parts[pos] = "w"
            src = "{{ x[%s:%s%s] }}" % (parts[0], parts[1], (":" + parts[2]) if parts[2] else "")
            jobs.append({"ctx": ctx, "steps": [{"op": "render_str", "src": src, "auto": False}]})
            meta.append(({"v": {"op": "badbound", "kind": kind, "pos": pos, "len": 3}}, "arr", src, "[10, 11, 12]" if ok else None))
    lit_idx = [i for i, m_ in enumerate(meta) if m_[1] == "literal"]
    oth_idx = [i for i, m_ in enumerate(meta) if m_[1] != "literal"]
    r_oth = vp.traced([jobs[i] for i in oth_idx], C, "c14") if tier == "quick" else vp.run_jobs([jobs[i] for i in oth_idx], tag="c14")
    r_lit = vp.run_jobs([jobs[i] for i in lit_idx], tag="c14-lit")          # (literals: text only, no trace validation)
    res = [None] * len(jobs)
    for i, r_ in zip(oth_idx, r_oth):
        res[i] = r_
    for i, r_ in zip(lit_idx, r_lit):
        res[i] = r_
    for (vec, cn, src, exp), rr, job in zip(meta, res, jobs):
        C.count()
        x = rr[0]
        if vec["v"]["len"] > 0:
            C.nontrivial([vec["v"], cn])
        key = {"op": vec["v"]["op"], "len": vec["v"]["len"], "a": vec["v"].get("a"), "b": vec["v"].get("b"), "c": vec["v"].get("c"), "cont": cn}
        if x.get("panic") or x.get("abort"):
            C.violation(dict(key, kind="panic"), "panic on %s with %s" % (src, job["ctx"]), {"job": job, "result": x})
        elif exp is None:
            if x.get("ok"):
                C.violation(dict(key, kind="noerr"), "%s with %s rendered %r but the specification says error" % (src, job["ctx"], x.get("out")),
                            {"job": job, "expected": "error", "got": x})
        elif not x.get("ok") or x.get("out") != exp:
            C.violation(dict(key, kind="value"), "%s with %s: engine %r, specification (Python) %r" % (
                src, job["ctx"], x.get("out") if x.get("ok") else "error: " + (x.get("msg") or x.get("disp", ""))[:80], exp),
                {"job": job, "expected": exp, "got": x, "vector": vec})
    C.sample({"vector": meta[len(meta) // 2][0], "src": meta[len(meta) // 2][2], "expected": meta[len(meta) // 2][3]})
    C.sample({"vector": meta[7][0], "src": meta[7][2], "expected": meta[7][3]})
    C.assumptions += ["HUGE is concretised as 2^63, +-(2^127-1/2^127), values congruent modulo 2^64 to small positions (2^64+1, -2^64-1, ...) and, for indices, u128::MAX; u128 values above i128::MAX as slice bounds are outside the universe",
                      "characters are Unicode scalar values (the `unicode` feature is off)"]
    return C.finish()


def replay(path):
    d = json.load(open(path))
    print(json.dumps(vp.run_jobs([d["replay"]["job"]], tag="replay"), indent=1))
    print("expected:", d["replay"].get("expected"))
    return 0
