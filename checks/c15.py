"""C15 — equality, ordering and map-key lookup are coherent across all value kinds.

I→S  (laws over observations, MC_Laws) the harness evaluates ==, the partial order and the total order on every pair of a
     universe of values (every kind, every integer encoding of equal numbers, NaN/-0, safe vs normal strings, nested
     arrays and maps with mixed element kinds, integer-keyed maps) through the public PartialEq / PartialOrd / Ord impls
     AND through templates (`a == b`, `a < b`, `[a, b] | unique | length`); TLC checks over all pairs and triples:
     == is an equivalence and coincides with "same data", the total order is antisymmetric, transitive and says
     equal only if == does, the partial order agrees with it, template results agree with the API.
M/S→I (MC_Keys) every set of <= 2 inserted keys x padding to map sizes that cross the scan cutoff x lookup key in every
     encoding x every access path (m[k], m.k, k in m, get, containing): found iff an equal key was inserted."""
import json, os, re
import vp


def universe():
    """(class, typed value) — class = identity of the DATA, independent of encoding / safe mark"""
    u = []
    def add(c, v):
        u.append((c, v))
    for enc in ("$i64", "$u64", "$i128", "$u128"):
        add("n1", {enc: "1"})
    add("n1", {"$f64": "1.0"})
    add("n0", {"$i64": "0"}); add("n0", {"$f64": "0.0"}); add("n0", {"$f64": "-0.0"})
    add("nm1", {"$i64": "-1"}); add("nm1", {"$i128": "-1"}); add("nm1", {"$f64": "-1.0"})
    add("n2p53p1", {"$i64": str(2**53 + 1)}); add("n2p53p1", {"$u128": str(2**53 + 1)}); add("n2p53", {"$f64": str(float(2**53))})
    add("n2p64", {"$u128": str(2**64)}); add("n2p64", {"$i128": str(2**64)}); add("n2p64", {"$f64": repr(float(2**64))})
    add("nm1h", {"$f64": "-1.5"}); add("nmh", {"$f64": "-0.5"}); add("nm2", {"$i64": "-2"}); add("nm2", {"$f64": "-2.0"}); add("nm2h", {"$f64": "-2.5"}); add("n1h", {"$f64": "1.5"}); add("n2", {"$u64": "2"})
    add("nhalf", {"$f64": "0.5"}); add("nan", {"$f64": "nan"}); add("nan", {"$f64": "nan"}); add("inf", {"$f64": "inf"})
    add("bt", True); add("bf", False); add("none", None); add("undef", {"$undef": 1})
    add("sa", "a"); add("sa", {"$safe": "a"}); add("sb", "b"); add("se", ""); add("s1", "1")
    add("ba", {"$bytes": [97]})
    add("a0", []); add("a1", [{"$i64": "1"}]); add("a1", [{"$u64": "1"}]); add("a1a", [1, "a"]); add("a2", [2]); add("aa1", [[1]])
    add("am", [{"a": 1}]); add("am2", [{"a": 2}]); add("an", [None]); add("a1n", [1, None])
    # arrays that extend one another past an element on which the partial order gives up (a map): prefix, not equal
    # arrays of different lengths whose first elements are of kinds without an order between them
    add("an5", [None, 5]); add("a300", [3, 0, 0]); add("a4", [4]); add("as1", ["s", 1]); add("a01", [0, 1])
    add("am_2", [{"a": 1}, 2]); add("am_m", [{"a": 1}, {"a": 1}]); add("aam", [[{"a": 1}]]); add("aam_1", [[{"a": 1}], 1])
    add("m0", {}); add("ma1", {"a": {"$i64": "1"}}); add("ma1", {"a": {"$u128": "1"}}); add("ma2", {"a": 2}); add("mb1", {"b": 1})
    add("mi", {"$map": [[{"$i64": "1"}, "x"]]}); add("mi", {"$map": [[{"$u128": "1"}, "x"]]}); add("mis", {"$map": [["1", "x"]]})
    add("maa", {"a": [1]}); add("mab", {"a": 1, "b": 2})
    return u


KEYENC = {"i0": {"i64": {"$i64": "0"}, "u64": {"$u64": "0"}, "i128": {"$i128": "0"}, "u128": {"$u128": "0"}},
          "i1": {"i64": {"$i64": "1"}, "u64": {"$u64": "1"}, "i128": {"$i128": "1"}, "u128": {"$u128": "1"}},
          "im1": {"i64": {"$i64": "-1"}, "i128": {"$i128": "-1"}},
          "i2p64": {"u128": {"$u128": str(2**64)}, "i128": {"$i128": str(2**64)}},
          "sa": {"owned": "a", "borrowed": {"$str": "a"}}, "s1": {"owned": "1"}, "bt": {"bool": True}, "umax": {"u128": {"$u128": str(2**128 - 1)}}}
VALENC = {"i0": {"i64": {"$i64": "0"}, "u64": {"$u64": "0"}, "i128": {"$i128": "0"}, "u128": {"$u128": "0"}},
          "i1": {"i64": {"$i64": "1"}, "u64": {"$u64": "1"}, "i128": {"$i128": "1"}, "u128": {"$u128": "1"}},
          "im1": {"i64": {"$i64": "-1"}, "i128": {"$i128": "-1"}},
          "i2p64": {"u128": {"$u128": str(2**64)}, "i128": {"$i128": str(2**64)}},
          "sa": {"owned": "a", "borrowed": "a"}, "s1": {"owned": "1"}, "bt": {"bool": True}, "umax": {"u128": {"$u128": str(2**128 - 1)}}}


def run(tier):
    C = vp.Check("C15", tier, "other")
    U = universe()
    n = len(U)
    classes = sorted(set(c for c, _ in U))
    cls = [classes.index(c) + 1 for c, _ in U]
    # ---- API-level matrices
    res = vp.run_jobs([{"steps": [{"op": "valops", "vals": [v for _, v in U]}]}], tag="c15-api")
    m = res[0][0]
    if m.get("panic"):
        C.violation({"kind": "panic"}, "panic computing the relation matrices", {"result": m})
        return C.finish()
    # ---- template-level observations
    jobs = []
    for i in range(n):
        for j in range(n):
            jobs.append({"ctx": {"a": U[i][1], "b": U[j][1]}, "steps": [
                {"op": "render_str", "src": "{{ a == b }}", "auto": False},
                {"op": "render_str", "src": "{{ a < b }}", "auto": False},
                {"op": "render_str", "src": "{{ [a, b] | unique | length }}", "auto": False},
                {"op": "render_str", "src": "{{ [a, b] | sort | length }}", "auto": False}]})
    tr = vp.run_jobs(jobs, tag="c15-tpl", timeout=3000)
    teq = [[0] * n for _ in range(n)]
    tlt = [[0] * n for _ in range(n)]
    tun = [[0] * n for _ in range(n)]
    undef_ix = [i for i, (c, _) in enumerate(U) if c == "undef"]
    for idx, rr in enumerate(tr):
        i, j = divmod(idx, n)
        C.count(4)
        if any(x.get("panic") or x.get("abort") for x in rr):
            C.violation({"kind": "panic", "a": U[i][0], "b": U[j][0]}, "panic comparing %s with %s in a template: %s" % (U[i][1], U[j][1], [x.get("msg") for x in rr if x.get("panic")]), {"a": U[i][1], "b": U[j][1]})
        teq[i][j] = 1 if rr[0].get("out") == "true" else 0 if rr[0].get("out") == "false" else 9
        tlt[i][j] = 2 if not rr[1].get("ok") else 1 if rr[1].get("out") == "true" else 0
        tun[i][j] = int(rr[2]["out"]) if rr[2].get("ok") and rr[2].get("out", "").isdigit() else 9
        if i in undef_ix or j in undef_ix:
            # an undefined operand inside a template expression is a separate matter (C02): copy the API-level expectation
            teq[i][j] = 1 if m["eq"][i][j] else 0
            tlt[i][j] = 2 if m["pcmp"][i][j] == 2 else 1 if m["pcmp"][i][j] < 0 else 0
            tun[i][j] = 1 if m["eq"][i][j] else 2
    work = vp.workdir("c15")
    op = os.path.join(work, "obs.json")
    json.dump({"cls": cls, "eq": m["eq"], "pc": m["pcmp"], "tc": m["cmp"], "teq": teq, "tlt": tlt, "tun": tun}, open(op, "w"))
    C.count(3 * n * n)
    # TLC stops at the first violated invariant: run one configuration per law so that every broken law is reported
    laws = ["InvEqReflexive", "InvEqSymmetric", "InvEqTransitive", "InvEqIsSameData", "InvOrdAntisymmetric", "InvOrdTransitive",
            "InvOrdEqualOnlyIfEq", "InvPartialAgrees", "InvTemplateAgrees"]
    for law in laws:
        with open(vp.SPEC + "/MC_Laws_run.cfg", "w") as f:
            f.write("INIT Init\nNEXT Next\nINVARIANT %s\nCHECK_DEADLOCK FALSE\n" % law)
        r = vp.tlc("MC_Laws", "MC_Laws_run", env={"OBS": op}, workers=16, timeout=3000, name="c15-" + law, allow_fail=True)
        C.add_tlc(r, "MC_Laws %s over %d values" % (law, n))
        if r.ok:
            continue
        if r.violated != law:
            raise vp.ToolError("MC_Laws failed: " + r.error[:300])
        ijk = [int(x) for x in re.findall(r"/\\ [ijk] = (\d+)", r.out)[:3]]
        names = re.findall(r"/\\ ([ijk]) = \d+", r.out)[:3]
        d = dict(zip(names, ijk))
        i, j, k = d.get("i", 1) - 1, d.get("j", 1) - 1, d.get("k", 1) - 1
        C.violation({"kind": "law", "law": law, "a": U[i][0], "b": U[j][0]},
                    "%s is broken: a = %s, b = %s%s: eq(a,b)=%s partial=%s total=%s; template: ==:%s <:%s unique-length:%s" % (
                        law, json.dumps(U[i][1]), json.dumps(U[j][1]), (", c = " + json.dumps(U[k][1])) if "Transitive" in law else "",
                        m["eq"][i][j], m["pcmp"][i][j], m["cmp"][i][j], teq[i][j], tlt[i][j], tun[i][j]),
                    {"law": law, "a": U[i][1], "b": U[j][1], "c": U[k][1]})
    for i in range(n):
        for j in range(n):
            C.nontrivial([i, j])
    C.sample({"a": U[3][1], "b": U[4][1], "eq": m["eq"][3][4], "partial": m["pcmp"][3][4], "total": m["cmp"][3][4]})
    # ---- key lookup
    r = vp.tlc("MC_Keys", "MC_Keys", workers=8, timeout=3000, name="c15-keys")
    C.add_tlc(r, "MC_Keys")
    jobs, meta = [], []
    for v in r.tags["VEC"]:
        entries = [[KEYENC[q["c"]][q["e"]], "V" + q["c"]] for q in v["ins"]]
        entries += [["pad%d" % t, t] for t in range(v["pad"])]
        look = v["look"]
        ctx = {"m": {"$map": entries}, "k": VALENC[look["c"]][look["e"]]}
        srcs = {"sub": "{% if m[k] is defined %}F{% else %}N{% endif %}", "in": "{% if k in m %}F{% else %}N{% endif %}",
                "containing": "{% if m is containing(pat=k) %}F{% else %}N{% endif %}",
                "get": "{{ m | get(key=k, default='N') | truncate(length=1, end='') | replace(from='V', to='F') }}",
                "attr": "{% if m.a is defined %}F{% else %}N{% endif %}"}
        for p in v["paths"]:
            jobs.append({"ctx": ctx, "steps": [{"op": "render_str", "src": srcs[p], "auto": False}]})
            meta.append((v, p))
    kr = vp.run_jobs(jobs, tag="c15-keys", timeout=3000)
    for (v, p), rr, job in zip(meta, kr, jobs):
        C.count()
        x = rr[0]
        C.nontrivial([sorted(q["c"] + q["e"] for q in v["ins"]), v["pad"], v["look"], p])
        want = "F" if v["found"] else "N"
        key = {"kind": "lookup", "path": p, "look": v["look"]["c"] + ":" + v["look"]["e"], "ins": sorted(q["c"] + ":" + q["e"] for q in v["ins"]), "pad": v["pad"]}
        if x.get("panic") or x.get("abort"):
            C.violation(dict(key, kind="panic"), "panic looking up %s" % key, {"job": job})
        elif not x.get("ok") or x.get("out") != want:
            C.violation(key, "lookup of key %s by %s in a map with keys %s (+%d fillers): engine %s, expected %s" % (
                key["look"], p, key["ins"], v["pad"], x.get("out") if x.get("ok") else "error: " + (x.get("msg") or "")[:80], want), {"job": job, "expected": want, "got": x})
    # ---- "the ordering used by sort": every arrangement of up to 4 values out of numbers in every encoding and none goes
    # through the plain `sort`; apart from the none values (whose place is not demanded) the result is non-decreasing by
    # mathematical value, whatever the input order, and a permutation of the input
    import itertools
    SV = [("0", {"$i64": "0"}, 0), ("-1", {"$i128": "-1"}, -1), ("1", {"$u64": "1"}, 1), ("0.5", {"$f64": "0.5"}, 0.5), ("-1.5", {"$f64": "-1.5"}, -1.5),
          (str(2**64), {"$u128": str(2**64)}, 2**64), ("N", None, None)]
    sjobs, smeta = [], []
    for n_ in (2, 3, 4):
        for combo in itertools.permutations(range(len(SV)), n_):
            if n_ == 4 and (6 not in combo or sum(combo) % 3):
                continue                    # arrangements of 4: only those containing none, a fixed third
            sjobs.append({"ctx": {"xs": [SV[i][1] for i in combo]}, "steps": [{"op": "render_str", "src": "{% for e in xs | sort %}{% if e is none %}N{% else %}{{ e }}{% endif %},{% endfor %}", "auto": False}]})
            smeta.append(combo)
    sres = vp.run_jobs(sjobs, tag="c15-sort")
    for combo, rr, job in zip(smeta, sres, sjobs):
        C.count()
        C.nontrivial(["sort", combo])
        x = rr[0]
        if x.get("panic") or x.get("abort") or not x.get("ok"):
            C.violation({"kind": "sort-error", "xs": [SV[i][0] for i in combo]}, "sort of %s fails: %s" % ([SV[i][0] for i in combo], (x.get("msg") or x.get("disp", ""))[:120]), {"job": job})
            continue
        got = x["out"].split(",")[:-1]
        byname = {SV[i][0]: SV[i][2] for i in combo}
        nums = [byname.get(g) for g in got if g != "N"]
        if sorted(got) != sorted(SV[i][0] for i in combo) or None in nums or any(a > b for a, b in zip(nums, nums[1:])):
            C.violation({"kind": "sort-order", "xs": [SV[i][0] for i in combo]}, "sort of %s gives %s: apart from none values, not the input in non-decreasing order" % ([SV[i][0] for i in combo], got), {"job": job})
    C.cov["explanation"] = ("laws of C15 model-checked by TLC over recorded relation matrices (%d values, all pairs and triples), API-level and template-level; "
                            "key lookups enumerated by TLC (MC_Keys) and replayed" % n)
    C.cov["rule"] = "pairs/triples over the value universe; key-lookup vectors (inserted set, padding, lookup key, path)"
    C.assumptions += ["the class of a universe value (same data) is assigned when the universe is built", "undefined operands in template expressions are left to C02"]
    return C.finish()


def replay(path):
    print(open(path).read()[:3000])
    return 0
