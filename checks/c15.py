"""C15 — equality, ordering and map-key lookup are coherent across all value kinds.

I→S  (laws over observations, MC_Laws) the harness evaluates ==, the partial order and the total order on every pair of a
     universe of values (every kind, every integer encoding of equal numbers, NaN/-0, safe vs normal strings, nested
     arrays and maps with mixed element kinds, integer-keyed maps) through the public PartialEq / PartialOrd / Ord impls
     AND through templates (`a == b`, `a < b`, `[a, b] | unique | length`); TLC checks over all pairs and triples:
     == is an equivalence and coincides with "same data", the total order is antisymmetric, transitive and says
     equal only if == does, the partial order agrees with it, template results agree with the API.
M/S→I (MC_Keys) every set of <= 2 inserted keys x padding to map sizes that cross the scan cutoff x lookup key in every
     encoding x every access path (m[k], m.k, k in m, get, containing): found iff an equal key was inserted."""
import json, os, re
import vp


def universe():
    """(class, typed value) — class = identity of the DATA, independent of encoding / safe mark"""
    u = []
    def add(c, v):
        u.append((c, v))
    for enc in ("$i64", "$u64", "$i128", "$u128"):
        add("n1", {enc: "1"})
    add("n1", {"$f64": "1.0"})
    add("n0", {"$i64": "0"}); add("n0", {"$f64": "0.0"}); add("n0", {"$f64": "-0.0"}); add("n0", {"$u64": "0"}); add("n0", {"$u128": "0"}); add("n0", {"$i128": "0"})
    add("nm1", {"$i64": "-1"}); add("nm1", {"$i128": "-1"}); add("nm1", {"$f64": "-1.0"})
    add("n2p53p1", {"$i64": str(2**53 + 1)}); add("n2p53p1", {"$u128": str(2**53 + 1)}); add("n2p53", {"$f64": str(float(2**53))})
    add("n2p64", {"$u128": str(2**64)}); add("n2p64", {"$i128": str(2**64)}); add("n2p64", {"$f64": repr(float(2**64))})
    add("nm1h", {"$f64": "-1.5"}); add("nmh", {"$f64": "-0.5"}); add("nm2", {"$i64": "-2"}); add("nm2", {"$f64": "-2.0"}); add("nm2h", {"$f64": "-2.5"}); add("n1h", {"$f64": "1.5"}); add("n2", {"$u64": "2"})
    add("nhalf", {"$f64": "0.5"}); add("nan", {"$f64": "nan"}); add("nan", {"$f64": "nan"}); add("inf", {"$f64": "inf"})
    add("bt", True); add("bf", False); add("none", None); add("undef", {"$undef": 1})
    add("sa", "a"); add("sa", {"$safe": "a"}); add("sb", "b"); add("se", ""); add("s1", "1")
    add("ba", {"$bytes": [97]})
    add("a0", []); add("a1", [{"$i64": "1"}]); add("a1", [{"$u64": "1"}]); add("a1a", [1, "a"]); add("a2", [2]); add("aa1", [[1]])
    add("am", [{"a": 1}]); add("am2", [{"a": 2}]); add("an", [None]); add("a1n", [1, None])
    # arrays that extend one another past an element on which the partial order gives up (a map): prefix, not equal
    # arrays of different lengths whose first elements are of kinds without an order between them
    add("an5", [None, 5]); add("a300", [3, 0, 0]); add("a4", [4]); add("as1", ["s", 1]); add("a01", [0, 1])
    add("am_2", [{"a": 1}, 2]); add("am_m", [{"a": 1}, {"a": 1}]); add("aam", [[{"a": 1}]]); add("aam_1", [[{"a": 1}], 1])
    add("m0", {}); add("ma1", {"a": {"$i64": "1"}}); add("ma1", {"a": {"$u128": "1"}}); add("ma2", {"a": 2}); add("mb1", {"b": 1})
    add("mi", {"$map": [[{"$i64": "1"}, "x"]]}); add("mi", {"$map": [[{"$u128": "1"}, "x"]]}); add("mis", {"$map": [["1", "x"]]})
    add("maa", {"a": [1]}); add("mab", {"a": 1, "b": 2})
    return u


KEYENC = {"i0": {"i64": {"$i64": "0"}, "u64": {"$u64": "0"}, "i128": {"$i128": "0"}, "u128": {"$u128": "0"}},
          "i1": {"i64": {"$i64": "1"}, "u64": {"$u64": "1"}, "i128": {"$i128": "1"}, "u128": {"$u128": "1"}},
          "im1": {"i64": {"$i64": "-1"}, "i128": {"$i128": "-1"}},
          "i2p64": {"u128": {"$u128": str(2**64)}, "i128": {"$i128": str(2**64)}},
          "sa": {"owned": "a", "borrowed": {"$str": "a"}}, "s1": {"owned": "1"}, "bt": {"bool": True}, "umax": {"u128": {"$u128": str(2**128 - 1)}}}
VALENC = {"i0": {"i64": {"$i64": "0"}, "u64": {"$u64": "0"}, "i128": {"$i128": "0"}, "u128": {"$u128": "0"}},
          "i1": {"i64": {"$i64": "1"}, "u64": {"$u64": "1"}, "i128": {"$i128": "1"}, "u128": {"$u128": "1"}},
          "im1": {"i64": {"$i64": "-1"}, "i128": {"$i128": "-1"}},
          "i2p64": {"u128": {"$u128": str(2**64)}, "i128": {"$i128": str(2**64)}},
          "sa": {"owned": "a", "borrowed": "a"}, "s1": {"owned": "1"}, "bt": {"bool": True}, "umax": {"u128": {"$u128": str(2**128 - 1)}}}


def _route_template(routes, numeric):
    """routes: list of (statement producing the value in variable/expression form).  Each entry is either an expression
    (appended directly) or a ('loop', header, expr) triple evaluated inside a for loop (every iteration appends)."""
    parts = ["{% set_global rs = [] %}"]
    for r in routes:
        if isinstance(r, tuple) and r[0] == "loop":
            parts.append("{%% for %s %%}%s{%% set_global rs = [...rs, %s] %%}%s{%% endfor %%}" % (r[1], "{% if " + r[3] + " %}" if len(r) > 3 else "", r[2], "{% endif %}" if len(r) > 3 else ""))
        elif isinstance(r, tuple) and r[0] == "capture":
            parts.append("{%% set cap_ %%}{{ %s }}{%% endset %%}{%% set_global rs = [...rs, cap_] %%}" % r[1])
        else:
            parts.append("{%% set_global rs = [...rs, %s] %%}" % r)
    cell = "{{ a == b }} {{ a != b }} {{ a in [b] }} {{ [a] == [b] }} {{ [a, b] | unique | length }}" + (" {{ a < b }}" if numeric else "") + ";"
    parts.append("{{ rs | length }}#{% for a in rs %}{% for b in rs %}" + cell + "{% endfor %}{% endfor %}")
    return "".join(parts)


def routes_part(C):
    """provenance (MC_Routes): the same datum obtained by different routes is equal to itself, different data are not"""
    groups = []
    # ---- strings: lengths around the inline-string limit (21 / 22 bytes), multi-byte, empty
    S = ["a", "b", "abcdefghijklmnopqrstu", "abcdefghijklmnopqrstuv", "é" * 10 + "x", "", "abcdefghijklmnopqrstuvwxyzabcdefghijklmn", "abcdefghijklmnopqrstuw"]
    ctx, routes, cls = {"nope_": {"$undef": 1}}, [], []
    for i, sv in enumerate(S):
        ctx["s%d" % i] = sv
        ctx["m%d" % i] = {"$map": [[sv, 1]]}
        ctx["mb%d" % i] = {"$map": [[{"$str": sv}, 1]]}
        ctx["g%d" % i] = {"k": sv}
        ctx["st%d" % i] = {"$struct": [[sv, 1]]} if False else {"$map": [[{"$str": sv}, 2]]}
        v = "s%d" % i
        rs = ["'%s'" % sv, v, ("loop", "k, x in m%d" % i, "k"), ("loop", "k, x in mb%d" % i, "k"), ("loop", "k in m%d | keys" % i, "k"),
              v + " ~ ''", v + "[:]", v + " | trim", "[%s][0]" % v, "g%d.k" % i, "g%d['k']" % i, "g%d | get(key='k')" % i,
              "nope_ | default(value=%s)" % v, "(%s if true else 0)" % v, ("capture", v), v + " | safe", v + " | replace(from='#', to='')",
              ("loop", "x in [%s]" % v, "x"), "[x for x in [%s]][0]" % v, "[%s] | join(sep='')" % v, v + " | upper | lower", v + " | str",
              ("loop", "k, x in g%d" % i, "x"), "(g%d | values)[0]" % i, "[%s, 1] | first" % v, "'' ~ %s" % v]
        routes += rs
        cls += [i + 1] * len(rs)
    groups.append(("strings", ctx, routes, cls, None))
    # ---- numbers: every machine encoding, loop counters, lengths, filter results, arithmetic results
    NV = {"0": 0, "1": 1, "2": 2, "-1": -1, "-0.5": -0.5, "-2": -2, "0.5": 0.5, "2^64": 2**64, "-1.5": -1.5}
    ctx = {"e0": [], "e1": [7], "e2": [7, 7], "u64max": {"$u64": str(2**64 - 1)}}
    R = []     # (value name, route)
    for name, val in (("0", 0), ("1", 1), ("2", 2)):
        for enc in ("i64", "u64", "i128", "u128"):
            ctx["c%s_%s" % (name, enc)] = {"$" + enc: str(val)}
            R.append((name, "c%s_%s" % (name, enc)))
            R.append((name, "c%s_%s + 0" % (name, enc)))
        ctx["f%s" % name] = {"$f64": "%d.0" % val}
        ctx["k%s" % name] = {"$map": [[{"$u64": str(val)}, 1]]}
        ctx["ki%s" % name] = {"$map": [[{"$i128": str(val)}, 1]]}
        R += [(name, str(val)), (name, "f%s" % name), (name, "'%d' | int" % val), (name, "%d.0 | int" % val), (name, "e%d | length" % val),
              (name, ("loop", "k, x in k%s" % name, "k")), (name, ("loop", "k, x in ki%s" % name, "k")), (name, "range(end=3)[%d]" % val),
              (name, "c%s_u64 | abs" % name), (name, "%d.0" % val)]
    ctx["fm0"] = {"$f64": "-0.0"}
    R += [("0", "fm0"), ("0", "'' | length"), ("0", "'' | wordcount"), ("0", ("loop", "x in e1", "loop.index0")), ("0", "1 - 1"), ("0", "2 % 2"), ("0", "2 // 3"),
          ("0", "e0 | length * 1"), ("0", "-(0)"),
          ("1", ("loop", "x in e1", "loop.index")), ("1", ("loop", "x in e1", "loop.length")), ("1", ("loop", "x in e2", "loop.index0", "loop.last")), ("1", "'a' | wordcount"), ("1", "0 + 1"), ("1", "3 // 2"), ("1", "3 % 2"),
          ("2", ("loop", "x in e2", "loop.index", "loop.last")), ("2", ("loop", "x in e2", "loop.length", "loop.first")), ("2", "1 + 1"), ("2", "4 // 2"), ("2", "'a b' | wordcount")]
    for name, val, encs in (("-1", -1, ("i64", "i128")), ("-2", -2, ("i64", "i128"))):
        for enc in encs:
            ctx["cm%d_%s" % (-val, enc)] = {"$" + enc: str(val)}
            R.append((name, "cm%d_%s" % (-val, enc)))
        ctx["fm%d" % -val] = {"$f64": "%d.0" % val}
        R += [(name, "(%d)" % val), (name, "fm%d" % -val), (name, "0 - %d" % -val), (name, "-(%d)" % -val), (name, "%d.0 | int" % val), (name, "(%d.0)" % val)]
    for name, lit in (("-0.5", "-0.5"), ("0.5", "0.5"), ("-1.5", "-1.5")):
        ctx["h%s" % name.replace("-", "m").replace(".", "_")] = {"$f64": lit}
        R += [(name, "h%s" % name.replace("-", "m").replace(".", "_")), (name, "(%s)" % lit), (name, "(%s + 0)" % lit), (name, "(%s * 1.0)" % lit)]
    R += [("-0.5", "(-1 / 2)"), ("0.5", "(1 / 2)"), ("-1.5", "(-3 / 2)")]
    ctx["b_u128"] = {"$u128": str(2**64)}; ctx["b_i128"] = {"$i128": str(2**64)}; ctx["b_f"] = {"$f64": repr(float(2**64))}
    R += [("2^64", "b_u128"), ("2^64", "b_i128"), ("2^64", "b_f"), ("2^64", "u64max + 1"), ("2^64", "b_u128 + 0"), ("2^64", "4294967296 * 4294967296")]
    order = sorted(set(NV.values()))
    names = sorted(NV, key=lambda q: NV[q])
    groups.append(("numbers", ctx, [r for _, r in R], [names.index(nm) + 1 for nm, _ in R], [order.index(NV[nm]) for nm, _ in R]))
    work = vp.workdir("c15")
    for gname, ctx, routes, cls, rank in groups:
        numeric = rank is not None
        src = _route_template(routes, numeric)
        job = {"ctx": ctx, "steps": [{"op": "render_str", "src": src, "auto": False}]}
        x = vp.run_jobs([job], tag="c15-routes-" + gname, timeout=1200)[0][0]
        n = len(cls)
        C.count(n * n)
        if x.get("panic") or x.get("abort") or not x.get("ok"):
            # find the route that fails
            bad = []
            single = [{"ctx": ctx, "steps": [{"op": "render_str", "src": _route_template([r], numeric), "auto": False}]} for r in routes]
            for r, rr in zip(routes, vp.run_jobs(single, tag="c15-routes-single", timeout=1200)):
                if not rr[0].get("ok"):
                    bad.append((r, (rr[0].get("msg") or rr[0].get("disp") or "")[:200]))
            C.violation({"kind": "route-error", "group": gname, "routes": [str(b[0]) for b in bad][:6]},
                        "obtaining and comparing %s by documented routes fails: %s" % (gname, bad[:3] or (x.get("msg") or x.get("disp") or "")[:300]), {"job": job})
            continue
        head, _, body = x["out"].partition("#")
        if head != str(n):
            C.violation({"kind": "route-count", "group": gname}, "the %d routes of group %s produced %s values" % (n, gname, head), {"job": job})
            continue
        cells = body.split(";")[:-1]
        assert len(cells) == n * n, (len(cells), n)
        tb = {"true": 1, "false": 0}
        mats = {k: [[0] * n for _ in range(n)] for k in ("teq", "tne", "tin", "tae", "tun", "tlt")}
        for idx, c in enumerate(cells):
            i, j = divmod(idx, n)
            f = c.split(" ")
            mats["teq"][i][j] = tb.get(f[0], 9); mats["tne"][i][j] = tb.get(f[1], 9); mats["tin"][i][j] = tb.get(f[2], 9)
            mats["tae"][i][j] = tb.get(f[3], 9); mats["tun"][i][j] = int(f[4]) if f[4].isdigit() else 9
            if numeric:
                mats["tlt"][i][j] = tb.get(f[5], 2)
            C.nontrivial(["route", gname, i, j])
        op = os.path.join(work, "routes-%s.json" % gname)
        json.dump(dict(mats, cls=cls, numeric=numeric, val2=rank if numeric else [0] * n), open(op, "w"))
        for law in ["InvRouteEq", "InvRouteNe", "InvRouteIn", "InvRouteArrayEq", "InvRouteUnique", "InvRouteOrder", "InvRouteSymmetric"]:
            with open(vp.SPEC + "/MC_Routes_run.cfg", "w") as f:
                f.write("INIT Init\nNEXT Next\nINVARIANT %s\nCHECK_DEADLOCK FALSE\n" % law)
            r = vp.tlc("MC_Routes", "MC_Routes_run", env={"OBS": op}, workers=8, timeout=1200, name="c15-routes-" + law, allow_fail=True)
            C.add_tlc(r, "MC_Routes %s over %d routes (%s)" % (law, n, gname))
            if r.ok:
                continue
            if r.violated != law:
                raise vp.ToolError("MC_Routes failed: " + r.error[:300])
            d = dict((a, int(b)) for a, b in re.findall(r"/\\ ([ij]) = (\d+)", r.out)[:2])
            i, j = d.get("i", 1) - 1, d.get("j", 1) - 1
            C.violation({"kind": "route-law", "law": law, "group": gname, "a": str(routes[i]), "b": str(routes[j])},
                        "%s is broken (%s): a obtained as %s, b obtained as %s (%s data): a == b:%s a != b:%s a in [b]:%s [a] == [b]:%s unique-length:%s%s" % (
                            law, gname, routes[i], routes[j], "the same" if cls[i] == cls[j] else "different", mats["teq"][i][j], mats["tne"][i][j], mats["tin"][i][j],
                            mats["tae"][i][j], mats["tun"][i][j], (" a < b:%s" % mats["tlt"][i][j]) if numeric else ""),
                        {"job": {"ctx": ctx, "steps": [{"op": "render_str", "auto": False, "src": _route_template([routes[i], routes[j]], numeric)}]}})


def run(tier):
    C = vp.Check("C15", tier, "other")
    U = universe()
    n = len(U)
    classes = sorted(set(c for c, _ in U))
    cls = [classes.index(c) + 1 for c, _ in U]
    # ---- API-level matrices
    res = vp.run_jobs([{"steps": [{"op": "valops", "vals": [v for _, v in U]}]}], tag="c15-api")
    m = res[0][0]
    if m.get("panic"):
        C.violation({"kind": "panic"}, "panic computing the relation matrices", {"result": m})
        return C.finish()
    # ---- template-level observations
    jobs = []
    for i in range(n):
        for j in range(n):
            jobs.append({"ctx": {"a": U[i][1], "b": U[j][1]}, "steps": [
                {"op": "render_str", "src": "{{ a == b }}", "auto": False},
                {"op": "render_str", "src": "{{ a < b }}", "auto": False},
                {"op": "render_str", "src": "{{ [a, b] | unique | length }}", "auto": False},
                {"op": "render_str", "src": "{{ [a, b] | sort | length }}", "auto": False}]})
    tr = vp.run_jobs(jobs, tag="c15-tpl", timeout=3000)
    teq = [[0] * n for _ in range(n)]
    tlt = [[0] * n for _ in range(n)]
    tun = [[0] * n for _ in range(n)]
    undef_ix = [i for i, (c, _) in enumerate(U) if c == "undef"]
    for idx, rr in enumerate(tr):
        i, j = divmod(idx, n)
        C.count(4)
        if any(x.get("panic") or x.get("abort") for x in rr):
            C.violation({"kind": "panic", "a": U[i][0], "b": U[j][0]}, "panic comparing %s with %s in a template: %s" % (U[i][1], U[j][1], [x.get("msg") for x in rr if x.get("panic")]), {"a": U[i][1], "b": U[j][1]})
        teq[i][j] = 1 if rr[0].get("out") == "true" else 0 if rr[0].get("out") == "false" else 9
        tlt[i][j] = 2 if not rr[1].get("ok") else 1 if rr[1].get("out") == "true" else 0
        tun[i][j] = int(rr[2]["out"]) if rr[2].get("ok") and rr[2].get("out", "").isdigit() else 9
        if i in undef_ix or j in undef_ix:
            # an undefined operand inside a template expression is a separate matter (C02): copy the API-level expectation
            teq[i][j] = 1 if m["eq"][i][j] else 0
            tlt[i][j] = 2 if m["pcmp"][i][j] == 2 else 1 if m["pcmp"][i][j] < 0 else 0
            tun[i][j] = 1 if m["eq"][i][j] else 2
    work = vp.workdir("c15")
    op = os.path.join(work, "obs.json")
    json.dump({"cls": cls, "eq": m["eq"], "pc": m["pcmp"], "tc": m["cmp"], "teq": teq, "tlt": tlt, "tun": tun}, open(op, "w"))
    C.count(3 * n * n)
    # TLC stops at the first violated invariant: run one configuration per law so that every broken law is reported
    laws = ["InvEqReflexive", "InvEqSymmetric", "InvEqTransitive", "InvEqIsSameData", "InvOrdAntisymmetric", "InvOrdTransitive",
            "InvOrdEqualOnlyIfEq", "InvPartialAgrees", "InvTemplateAgrees"]
    for law in laws:
        with open(vp.SPEC + "/MC_Laws_run.cfg", "w") as f:
            f.write("INIT Init\nNEXT Next\nINVARIANT %s\nCHECK_DEADLOCK FALSE\n" % law)
        r = vp.tlc("MC_Laws", "MC_Laws_run", env={"OBS": op}, workers=16, timeout=3000, name="c15-" + law, allow_fail=True)
        C.add_tlc(r, "MC_Laws %s over %d values" % (law, n))
        if r.ok:
            continue
        if r.violated != law:
            raise vp.ToolError("MC_Laws failed: " + r.error[:300])
        ijk = [int(x) for x in re.findall(r"/\\ [ijk] = (\d+)", r.out)[:3]]
        names = re.findall(r"/\\ ([ijk]) = \d+", r.out)[:3]
        d = dict(zip(names, ijk))
        i, j, k = d.get("i", 1) - 1, d.get("j", 1) - 1, d.get("k", 1) - 1
        C.violation({"kind": "law", "law": law, "a": U[i][0], "b": U[j][0]},
                    "%s is broken: a = %s, b = %s%s: eq(a,b)=%s partial=%s total=%s; template: ==:%s <:%s unique-length:%s" % (
                        law, json.dumps(U[i][1]), json.dumps(U[j][1]), (", c = " + json.dumps(U[k][1])) if "Transitive" in law else "",
                        m["eq"][i][j], m["pcmp"][i][j], m["cmp"][i][j], teq[i][j], tlt[i][j], tun[i][j]),
                    {"law": law, "a": U[i][1], "b": U[j][1], "c": U[k][1]})
    for i in range(n):
        for j in range(n):
            C.nontrivial([i, j])
    C.sample({"a": U[3][1], "b": U[4][1], "eq": m["eq"][3][4], "partial": m["pcmp"][3][4], "total": m["cmp"][3][4]})
    # ---- key lookup
    r = vp.tlc("MC_Keys", "MC_Keys", workers=8, timeout=3000, name="c15-keys")
    C.add_tlc(r, "MC_Keys")
    jobs, meta = [], []
    for v in r.tags["VEC"]:
        entries = [[KEYENC[q["c"]][q["e"]], "V" + q["c"]] for q in v["ins"]]
        entries += [["pad%d" % t, t] for t in range(v["pad"])]
        look = v["look"]
        ctx = {"m": {"$map": entries}, "k": VALENC[look["c"]][look["e"]]}
        srcs = {"sub": "{% if m[k] is defined %}F{% else %}N{% endif %}", "in": "{% if k in m %}F{% else %}N{% endif %}",
                "containing": "{% if m is containing(pat=k) %}F{% else %}N{% endif %}",
                "get": "{{ m | get(key=k, default='N') | truncate(length=1, end='') | replace(from='V', to='F') }}",
                "attr": "{% if m.a is defined %}F{% else %}N{% endif %}"}
        for p in v["paths"]:
            jobs.append({"ctx": ctx, "steps": [{"op": "render_str", "src": srcs[p], "auto": False}]})
            meta.append((v, p))
    kr = vp.run_jobs(jobs, tag="c15-keys", timeout=3000)
    for (v, p), rr, job in zip(meta, kr, jobs):
        C.count()
        x = rr[0]
        C.nontrivial([sorted(q["c"] + q["e"] for q in v["ins"]), v["pad"], v["look"], p])
        want = "F" if v["found"] else "N"
        key = {"kind": "lookup", "path": p, "look": v["look"]["c"] + ":" + v["look"]["e"], "ins": sorted(q["c"] + ":" + q["e"] for q in v["ins"]), "pad": v["pad"]}
        if x.get("panic") or x.get("abort"):
            C.violation(dict(key, kind="panic"), "panic looking up %s" % key, {"job": job})
        elif not x.get("ok") or x.get("out") != want:
            C.violation(key, "lookup of key %s by %s in a map with keys %s (+%d fillers): engine %s, expected %s" % (
                key["look"], p, key["ins"], v["pad"], x.get("out") if x.get("ok") else "error: " + (x.get("msg") or "")[:80], want), {"job": job, "expected": want, "got": x})
    # ---- "the ordering used by sort": every arrangement of up to 4 values out of numbers in every encoding and none goes
    # through the plain `sort`; apart from the none values (whose place is not demanded) the result is non-decreasing by
    # mathematical value, whatever the input order, and a permutation of the input
    import itertools
    SV = [("0", {"$i64": "0"}, 0), ("-1", {"$i128": "-1"}, -1), ("1", {"$u64": "1"}, 1), ("0.5", {"$f64": "0.5"}, 0.5), ("-1.5", {"$f64": "-1.5"}, -1.5),
          (str(2**64), {"$u128": str(2**64)}, 2**64), ("N", None, None)]
    sjobs, smeta = [], []
    for n_ in (2, 3, 4):
        for combo in itertools.permutations(range(len(SV)), n_):
            if n_ == 4 and (6 not in combo or sum(combo) % 3):
                continue                    # arrangements of 4: only those containing none, a fixed third
            sjobs.append({"ctx": {"xs": [SV[i][1] for i in combo]}, "steps": [{"op": "render_str", "src": "{% for e in xs | sort %}{% if e is none %}N{% else %}{{ e }}{% endif %},{% endfor %}", "auto": False}]})
            smeta.append(combo)
    sres = vp.run_jobs(sjobs, tag="c15-sort")
    for combo, rr, job in zip(smeta, sres, sjobs):
        C.count()
        C.nontrivial(["sort", combo])
        x = rr[0]
        if x.get("panic") or x.get("abort") or not x.get("ok"):
            C.violation({"kind": "sort-error", "xs": [SV[i][0] for i in combo]}, "sort of %s fails: %s" % ([SV[i][0] for i in combo], (x.get("msg") or x.get("disp", ""))[:120]), {"job": job})
            continue
        got = x["out"].split(",")[:-1]
        byname = {SV[i][0]: SV[i][2] for i in combo}
        nums = [byname.get(g) for g in got if g != "N"]
        if sorted(got) != sorted(SV[i][0] for i in combo) or None in nums or any(a > b for a, b in zip(nums, nums[1:])):
            C.violation({"kind": "sort-order", "xs": [SV[i][0] for i in combo]}, "sort of %s gives %s: apart from none values, not the input in non-decreasing order" % ([SV[i][0] for i in combo], got), {"job": job})
    routes_part(C)
    C.cov["explanation"] = ("laws of C15 model-checked by TLC over recorded relation matrices (%d values, all pairs and triples), API-level and template-level; "
                            "key lookups enumerated by TLC (MC_Keys) and replayed" % n)
    C.cov["rule"] = ("pairs/triples over the value universe; key-lookup vectors (inserted set, padding, lookup key, path); all pairs of the 208 string routes and "
                     "of the 112 numeric routes (MC_Routes)")
    C.assumptions += ["the class of a universe value (same data) is assigned when the universe is built", "undefined operands in template expressions are left to C02"]
    return C.finish()


def replay(path):
    print(open(path).read()[:3000])
    return 0
