"""C16 — collection filters keep their contracts (sort, unique, group_by, nth, join, ...).

M    TLC (MC_Builtins): the reference Sort / Unique / Reverse of Builtins.tla satisfy their own laws (permutation,
     idempotence, involution) on every array in bounds.
S→I  every array of length <= MaxLen over a 13-element universe (equal numbers in two encodings, strings, none, maps equal
     on the sort key but different elsewhere — stability —, a map missing the attribute, a map whose attribute is none,
     a nested array) x {sort, sort(attribute), unique, group_by, reverse, first/last/nth/length, join/split, keys/values/
     pairs}: exact result for comparable inputs, error for incomparable keys, round-trip laws.
I→S  random arrays of 21..300 elements with mixed / nested keys (VERIF_SEED): the recorded (input, output | error) of
     sort(attribute) and unique are checked by TLC against the contract predicates IsPermutation, SortedStable,
     refuse-iff-incomparable, UniqueContract; a panic is a violation (long inputs matter: the standard sort only
     notices an inconsistent order on longer inputs)."""
import json, os, random
import vp

CONC = {"i1a": {"$i64": "1"}, "i1b": {"$u64": "1"}, "i2": 2, "sa": "a", "sb": "b", "nn": None,
        "m1": {"k": 1, "id": "m1"}, "m2": {"k": {"$u64": "1"}, "id": "m2"}, "m3": {"k": 2, "id": "m3"}, "ms": {"k": "a", "id": "ms"},
        "mx": {"id": "mx"}, "mn": {"k": None, "id": "mn"}, "ar": [1], "ax": [1, "a"], "a13": [1, 3], "a2": [2],
        "m0": {}, "mxz": {"id": "mx", "zz": 1}, "aq": [{"q": 1}], "aq2": [{"q": 1}, 2], "in1": {"$i64": "-1"}, "mk": {"k": {"$i64": "-1"}, "id": "mk"}, "fm15": {"$f64": "-1.5"},
        "z0": {"$u64": "0"}, "zU": {"$u128": "0"}, "bt": True, "bf": False,
        "f53": {"$f64": "9007199254740992.0"}, "i53": {"$i64": "9007199254740993"}}          # m0 = {} and mxz = mx plus a key sorting last: "prefix" maps of mx
SHOWN = {"i1a": "1", "i1b": "1", "i2": "2", "sa": "a", "sb": "b", "nn": "N", "ar": "A1", "ax": "A1a", "a13": "A13", "a2": "A2", "m0": "M0", "mxz": "mxz", "aq": "A{\"q\": 1}", "aq2": "A{\"q\": 1}2", "in1": "-1", "fm15": "-1.5", "z0": "0", "zU": "0", "bt": "true", "bf": "false", "f53": "9007199254740992.0", "i53": "9007199254740993"}
ITEM = ("{% if e is map %}{% if e | length == 0 %}M0{% elif e.zz is defined %}mxz{% else %}{{ e.id }}{% endif %}{% elif e is array %}A{{ e | join }}"
        "{% elif e is none %}N{% else %}{{ e }}{% endif %},")


# a second concretisation of the two string elements: long enough (> 23 bytes) to be stored on the heap, a multi-byte character
# near the end, differing in the last character only -- same classes, same order, another representation
LONG_A, LONG_B = "a" * 24 + "\u00e9a", "a" * 24 + "\u00e9b"
_SH = [SHOWN]


def shown(ids):
    return "".join(_SH[0].get(i, i) + "," for i in ids)


def _twice(vecs, pending):
    """every vector, then (filled while the first pass runs) those that hold a string element, marked for the long concretisation"""
    for v in vecs:
        yield v
    for v in pending:
        yield v
    _SH[0] = SHOWN


def loop(expr):
    return "{% for e in " + expr + " %}" + ITEM + "{% endfor %}"


def run(tier):
    C = vp.Check("C16", tier, "exploration")
    maxlen = 3 if tier == "quick" else 4
    with open(vp.SPEC + "/MC_Builtins_run.cfg", "w") as f:
        f.write(open(vp.SPEC + "/MC_Builtins.cfg").read().replace("MaxLen = 3", "MaxLen = %d" % maxlen).replace("INVARIANT InvObs\n", ""))
    r = vp.tlc("MC_Builtins", "MC_Builtins_run", env={"OBS": ""}, workers=8, timeout=3000, name="c16")
    C.add_tlc(r, "MC_Builtins MaxLen=%d" % maxlen)
    C.cov["rule"] = ("all arrays of length <= %d over 29 abstract elements x 9 filter families (those holding a string element a second time with strings of 26 characters / 27 bytes, stored on the heap); plus random long arrays checked by contract; "
                     "non-trivial = distinct (array, filter) with a specified outcome and a non-empty array" % maxlen)
    jobs, meta = [], []
    pending_long = []
    for v in _twice(r.tags["VEC"], pending_long):
        xs = v["xs"]
        if v.get("_long"):
            ctx = {"xs": [{"sa": LONG_A, "sb": LONG_B}.get(i, CONC[i]) for i in xs]}
            _SH[0] = dict(SHOWN, sa=LONG_A, sb=LONG_B)
        else:
            ctx = {"xs": [CONC[i] for i in xs]}
            _SH[0] = SHOWN
            if any(i in ("sa", "sb") for i in xs):
                pending_long.append(dict(v, _long=True))
        tests = []
        for name, res, expr in (("sort", v["sort"], "xs | sort"), ("sort(attribute)", v["sortk"], "xs | sort(attribute='k')")):
            if res["r"] == "ok-nn":
                tests.append((name, loop(expr), ("NN" if name == "sort" else "NNK", shown(res["out"]))))          # compare after dropping the none items
            elif res["r"] != "unspec":
                tests.append((name, loop(expr), shown(res["out"]) if res["r"] == "ok" else None))
        tests.append(("unique", loop("xs | unique"), shown(v["unique"])))
        tests.append(("reverse", loop("xs | reverse") + "|{{ xs | reverse | reverse == xs }}|{{ xs | length }}", shown(v["rev"]) + "|true|%d" % len(xs)))
        if xs:
            tests.append(("first/last/nth", "{{ xs | first == xs | nth(n=0) }},{{ xs | last == xs | reverse | first }},{{ xs | nth(n=%d) == xs | last }},{{ xs | nth(n=%d) is none }}" % (len(xs) - 1, len(xs)),
                          "true,true,true,true"))
        if v["gok"]:
            g = "{% set g = xs | group_by(attribute='k') %}" + "|".join("{%% if g[%s] is defined %%}%s{%% endif %%}" % (k, loop("g[%s]" % k)) for k in ("1", "2", "'a'")) + "|{{ g | length }}"
            tests.append(("group_by", g, "|".join(shown(x) for x in v["groups"]) + "|%d" % v["ngroups"]))
        for name, src, exp in tests:
            jobs.append({"ctx": ctx, "steps": [{"op": "render_str", "src": src, "auto": False}]})
            meta.append((xs, name, src, exp))
    # strings and maps: join/split, keys/values/pairs
    for s in ("", "a", "a,b", ",", "a,,b", ",a,", "é,世"):
        jobs.append({"ctx": {"s": s}, "steps": [{"op": "render_str", "src": "{{ s | split(pat=',') | join(sep=',') == s }},{{ s | split(pat=',') | length }}", "auto": False}]})
        meta.append(([s], "split/join", "split-join", "true,%d" % len(s.split(","))))
    for m in ({}, {"a": 1}, {"a": 1, "b": "x", "c": [1]}, {"$map": [[1, "i"], ["1", "s"], [True, "b"]]}, {k_: i_ for i_, k_ in enumerate("qwertyuiopasdf")},
              {"$map": [[{"$i64": str(i_ - 5)}, i_] for i_ in range(12)]}):
        # pairs agree with lookups; keys, values and pairs agree with one another POSITION BY POSITION (whatever the order is)
        src = ("{% for p in m | pairs %}{{ m[p[0]] == p[1] }},{% endfor %}|{{ m | keys | length == m | length }},{{ m | values | length == m | length }},{{ m | pairs | length }}|"
               "{% set ks = m | keys %}{% set vs = m | values %}{% set ps = m | pairs %}{% for k in ks %}{{ m[k] == vs[loop.index0] and ps[loop.index0][0] == k and ps[loop.index0][1] == vs[loop.index0] }},{% endfor %}")
        n = len(m["$map"]) if "$map" in m else len(m)
        jobs.append({"ctx": {"m": m}, "steps": [{"op": "render_str", "src": src, "auto": False}]})
        meta.append(([str(m)], "keys/values/pairs", src, "true," * n + "|true,true,%d|" % n + "true," * n))
    # argument values at and beyond the edges ("all argument values"): value or error, never a panic
    EDGE = [-1, 0, {"$i128": str(2**100)}, {"$u128": str(2**128 - 1)}, {"$i64": str(-2**63)}, {"$f64": "1e30"}, {"$f64": "nan"}, None, "x", "", [1], {"$undef": 1}]
    for xs_ in ([], [1, 2, 3], [{"k": 1}, {"k": None}], "abc"):
        for call in ("nth(n=a)", "join(sep=a)", "sort(attribute=a)", "group_by(attribute=a)", "get(key=a)", "get(key='k', default=a)", "split(pat=a)", "first", "last", "unique", "reverse", "length"):
            for a in EDGE:
                jobs.append({"ctx": {"xs": xs_, "a": a} if a != {"$undef": 1} else {"xs": xs_}, "steps": [{"op": "render_str", "src": "{{ xs | " + call + " }}", "auto": False}]})
                meta.append(([str(xs_), str(a)], "edge:" + call, "{{ xs | " + call + " }}", "ANYRESULT"))
                if "a)" not in call:
                    break
    res = vp.run_jobs(jobs, tag="c16", timeout=3000)
    for (xs, name, src, exp), rr, job in zip(meta, res, jobs):
        C.count()
        x = rr[0]
        if xs:
            C.nontrivial([xs, name])
        key = {"filter": name, "xs": xs}
        if x.get("panic") or x.get("abort"):
            C.violation(dict(key, kind="panic"), "panic: %s on %s: %s" % (name, xs, x.get("msg")), {"job": job, "result": x})
        elif exp == "ANYRESULT":
            pass
        elif isinstance(exp, tuple):
            got = x.get("out", "").replace("N,", "") if x.get("ok") else None
            if got is not None and exp[0] == "NNK":
                got = got.replace("mn,", "")             # the element whose KEY is none
            if got != exp[1]:
                C.violation(dict(key, kind="value"), "%s on %s: engine %s; apart from the none values the contract gives %r" % (
                    name, xs, repr(x.get("out")) if x.get("ok") else "error: " + (x.get("msg") or x.get("disp", ""))[:100], exp[1]), {"job": job, "expected": exp[1], "got": x})
        elif exp is None:
            if x.get("ok"):
                C.violation(dict(key, kind="noerr"), "%s on %s must be refused (keys not mutually comparable / attribute missing) but gives %r" % (name, xs, x.get("out")), {"job": job, "got": x})
        elif not x.get("ok") or x.get("out") != exp:
            C.violation(dict(key, kind="value"), "%s on %s: engine %s, contract %r" % (name, xs, repr(x.get("out")) if x.get("ok") else "error: " + (x.get("msg") or x.get("disp", ""))[:100], exp),
                        {"job": job, "expected": exp, "got": x})
    # ---- long random arrays, contracts checked by TLC on the recorded observations
    rnd = random.Random(vp.seed() + 23)
    KEYPOOL = [("int", i, {"$i64": str(i)}) for i in range(1, 6)] + [("int", 3, {"$u128": "3"}), ("int", 2, {"$f64": "2.0"})] \
        + [("str", i, s) for i, s in enumerate(["a", "b", "c"], 1)] + [("xarr", 1, [1, "a"]), ("xarr", 2, [[1], "b"]), ("xarr", 3, [{"a": 1}]), ("map", 1, {"a": 1}), ("map", 2, {"a": 2}), ("bool", 0, True)] \
        + [("arr", 1, [1]), ("arr", 2, [1, 2]), ("arr", 3, [2])]
    njobs = 60 if tier == "quick" else 600
    ljobs, lmeta = [], []
    for t in range(njobs):
        n = rnd.randint(21, 120 if tier == "quick" else 300)
        style = rnd.choice(["ints", "strs", "mixed", "containers", "mixed", "arrays", "same-xarr"])
        pool = {"ints": [k for k in KEYPOOL if k[0] == "int"], "strs": [k for k in KEYPOOL if k[0] == "str"], "mixed": KEYPOOL,
                "containers": [k for k in KEYPOOL if k[0] in ("arr", "xarr", "map")],
                "arrays": [k for k in KEYPOOL if k[0] == "arr"], "same-xarr": [k for k in KEYPOOL if k[0] == "xarr"][:1]}[style]
        keys = [rnd.choice(pool) for _ in range(n)]
        ctx = {"xs": [{"k": k[2], "pos": i + 1} for i, k in enumerate(keys)], "ys": [k[2] for k in keys]}
        ljobs.append({"ctx": ctx, "steps": [{"op": "render_str", "src": "{% for e in xs | sort(attribute='k') %}{{ e.pos }},{% endfor %}", "auto": False},
                                            {"op": "render_str", "src": "{% for e in xs | unique %}{{ e.pos }},{% endfor %}", "auto": False},
                                            {"op": "render_str", "src": "{{ ys | sort | length }},{{ ys | unique | length }}", "auto": False}]})
        lmeta.append(keys)
    lres = vp.run_jobs(ljobs, tag="c16-long", timeout=3000)
    work = vp.workdir("c16")
    op = os.path.join(work, "obs.ndjson")
    nobs = 0
    with open(op, "w") as f:
        for keys, rr, job in zip(lmeta, lres, ljobs):
            C.count(3)
            for x, what in zip(rr, ("sort(attribute)", "unique", "sort/unique on plain values")):
                if x.get("panic") or x.get("abort"):
                    C.violation({"kind": "panic", "filter": what, "n": len(keys)}, "panic: %s on an array of %d elements: %s" % (what, len(keys), (x.get("msg") or "")[:120]), {"job": job, "result": x})
            if any(x.get("panic") or x.get("abort") for x in rr):
                continue
            kinds = [k[0] for k in keys]
            rank = [k[1] for k in keys]
            s = rr[0]
            f.write(json.dumps({"f": "sort", "kinds": kinds, "rank": rank, "ok": bool(s.get("ok")), "out": [int(t) for t in s.get("out", "").split(",") if t] if s.get("ok") else []}) + "\n")
            u = rr[1]
            cls = list(range(1, len(keys) + 1))      # every element has its own pos: all distinct
            f.write(json.dumps({"f": "unique", "cls": cls, "ok": bool(u.get("ok")), "out": [int(t) for t in u.get("out", "").split(",") if t] if u.get("ok") else []}) + "\n")
            nobs += 2
            C.nontrivial(["long", len(keys), kinds[:5]])
    if nobs:
        with open(vp.SPEC + "/MC_Builtins_obs.cfg", "w") as f:
            f.write("CONSTANT MaxLen = 0\nINIT Init\nNEXT Next\nINVARIANT InvObs\nCHECK_DEADLOCK FALSE\n")
        r2 = vp.tlc("MC_Builtins", "MC_Builtins_obs", env={"OBS": op}, workers=8, timeout=3000, name="c16-obs", allow_fail=True)
        C.add_tlc(r2, "MC_Builtins contracts on %d recorded long-array observations" % nobs)
        if not r2.ok:
            if r2.violated != "InvObs":
                raise vp.ToolError("MC_Builtins (obs) failed: " + r2.error[:300])
            import re
            m = re.search(r"/\\ o = (\d+)", r2.out)
            ob = [json.loads(l) for l in open(op)][int(m.group(1)) - 1] if m else {}
            C.violation({"kind": "contract", "filter": ob.get("f"), "n": len(ob.get("kinds", ob.get("cls", [])))},
                        "%s on a long array breaks its contract: ok=%s, kinds=%s..., output positions %s..." % (ob.get("f"), ob.get("ok"), str(ob.get("kinds"))[:80], str(ob.get("out"))[:80]), {"observation": ob})
        else:
            C.cov["traces_validated_against_impl"] = nobs
    k = len(meta) // 3
    C.sample({"xs": meta[k][0], "filter": meta[k][1], "src": meta[k][2], "expected": meta[k][3]})
    C.assumptions += ["the position of none values in a sorted array, and group_by on elements without the attribute (error or discard), are not demanded",
                      "stability among equal plain numbers is not observable"]
    return C.finish()


def replay(path):
    d = json.load(open(path))
    if "job" in d["replay"]:
        print(json.dumps(vp.run_jobs([d["replay"]["job"]], tag="replay"), indent=1)[:3000], "\nexpected:", d["replay"].get("expected"))
    else:
        print(json.dumps(d, indent=1)[:3000])
    return 0
