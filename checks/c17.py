"""C17 — every built-in filter, test and function is total and honours its contract.

M    TLC (MC_Strings): the string-filter reference of Strings.tla satisfies the laws of the statement (case filters change
     only letter case, trim* remove only matching ends, truncate keeps at most `length` characters plus the marker, split
     gives n+1 pieces); (MC_Sigs): the type tests partition values.
S→I  (a) every string of length <= MaxLen over {a A é É space \\n \\r\\n . < '}, and every word of 1 or 2 of these tokens repeated to 24
     tokens (more bytes than a string holds inline), through 19 string filters: exact reference text;
     (b) the signature matrix: 36 filters, 17 tests, 2 functions x receiver of each of 9 kinds x each keyword argument
     absent / of the right kind / of a wrong kind: Ok, error, "missing argument" vs "mistyped argument" (observed
     structurally through State::call_filter, no message text), never a panic;
     (c) `default`, `range` (exact arithmetic progression), type-test partition, integer conversions against exact arithmetic."""
import json
import vp

TOK = {"a": "a", "A": "A", "e1": "é", "E1": "É", "sp": " ", "nl": "\n", "crlf": "\r\n", "dot": ".", "lt": "<", "q": "'"}
RECV = {"str": ["ab", ""], "int": [3, -4], "float": [{"$f64": "2.5"}, {"$f64": "nan"}], "bool": [True], "none": [None],
        "undef": [{"$undef": 1}], "arr": [[1, 2], []], "map": [{"a": 1}, {}], "bytes": [{"$bytes": [255, 65]}]}
RIGHT = {"str": ["a", ""], "nat": [2, 0], "int": [2, -1], "bool": [True], "any": [1]}
WRONG = {"str": [5, [1]], "nat": ["x", -1, {"$f64": "1.5"}], "int": ["x", [1]], "bool": ["x"], "any": []}
SPECIAL_RIGHT = {("round", "method"): ["ceil"], ("int", "base"): [10, 16], ("sort", "attribute"): ["a"], ("group_by", "attribute"): ["a"], ("divisible_by", "divisor"): [2],
                 ("containing", "pat"): ["a"], ("range", "end"): [5], ("range", "start"): [1], ("range", "step_by"): [2]}


def text(toks, width=4):
    return "".join((" " * width) if t == "INDENT" else TOK.get(t, t) for t in toks)


def run(tier):
    C = vp.Check("C17", tier, "exploration")
    maxlen = 3 if tier == "quick" else 4
    with open(vp.SPEC + "/MC_Strings_run.cfg", "w") as f:
        f.write(open(vp.SPEC + "/MC_Strings.cfg").read().replace("MaxLen = 3", "MaxLen = %d" % maxlen))
    r = vp.tlc("MC_Strings", "MC_Strings_run", workers=8, timeout=3000, name="c17-str", xmx="16g")
    C.add_tlc(r, "MC_Strings MaxLen=%d" % maxlen)
    C.cov["rule"] = ("(a) all strings of length <= %d over 10 character tokens, and the 100 long ones (every word of 1 or 2 tokens repeated to 24 tokens: 24 to 48 bytes, beyond what a string holds inline) x 19 string filters (+ truncate lengths, indent flags); (b) signature matrix cells; "
                     "(c) range / default / type tests / conversions; non-trivial = distinct cell with a specified outcome" % maxlen)
    jobs, meta = [], []

    def add(src, ctx, exp, what, key):
        jobs.append({"cfg": {"probes": True}, "ctx": ctx, "steps": [{"op": "render_str", "src": src, "auto": False}]})
        meta.append((src, exp, what, key))

    for v in r.tags["VEC"]:
        s = text(v["s"])
        ctx = {"s": s}
        simple = [("upper", "s | upper", v["upper"]), ("lower", "s | lower", v["lower"]), ("capitalize", "s | capitalize", v["capitalize"]), ("title", "s | title", v["title"]),
                  ("trim", "s | trim", v["trim"]), ("trim_start", "s | trim_start", v["trim_start"]), ("trim_end", "s | trim_end", v["trim_end"]),
                  ("trim(pat='.')", "s | trim(pat='.')", v["trim_dot"]), ("trim_start(pat='a')", "s | trim_start(pat='a')", v["trim_start_a"]),
                  ("trim_end(pat='.')", "s | trim_end(pat='.')", v["trim_end_dot"]), ("replace(a -> <)", "s | replace(from='a', to='<')", v["replace_a"]),
                  ("replace(\\n -> .)", "s | replace(from=nl, to='.')", v["replace_nl"]), ("newlines_to_br", "s | newlines_to_br", v["br"]),
                  ("escape_html", "s | escape_html", v["esc_html"]), ("escape_xml", "s | escape_xml", v["esc_xml"])]
        tr = v["trunc"]
        for n, t in (sorted((int(k), t) for k, t in tr.items()) if isinstance(tr, dict) else enumerate(tr)):
            simple.append(("truncate(length=%d)" % n, "s | truncate(length=%d, end='~')" % n, t))
        for fl, t in v["indent"].items():
            simple.append(("indent(first=%s, blank=%s)" % (fl[0] == "t", fl[1] == "t"), "s | indent(width=2, first=%s, blank=%s)" % ("true" if fl[0] == "t" else "false", "true" if fl[1] == "t" else "false"), t))
        parts, exps, names = [], [], []
        for name, e, res in simple:
            if res["r"] != "ok":
                continue
            parts.append("{{ " + e + " }}")
            exps.append(text(res["s"], 2))
            names.append(name)
        parts.append("{{ s | wordcount }}")
        exps.append(str(v["wordcount"]))
        names.append("wordcount")
        parts.append("{% for p in s | split(pat='.') %}[{{ p }}]{% endfor %}")
        exps.append("".join("[" + text(p) + "]" for p in v["split_dot"]))
        names.append("split")
        parts.append("{{ s | split(pat='.') | join(sep='.') == s }}")
        exps.append("true")
        names.append("split/join")
        add("\x1f".join(parts), dict(ctx, nl="\n"), "\x1f".join(exps), "strings", {"s": v["s"], "names": names})
    # ---- signature matrix, range, types
    r2 = vp.tlc("MC_Sigs", "MC_Sigs", workers=8, timeout=3000, name="c17-sig")
    C.add_tlc(r2, "MC_Sigs")
    for v in r2.tags["VEC"]:
        if v["fam"] == "range":
            ctx = {"a": v["start"], "b": v["end"], "c": v["step"]}
            exp = v["r"]
            add("{% for i in range(start=a, end=b, step_by=c) %}{{ i }},{% endfor %}", ctx,
                {"ok": "".join("%d," % i for i in exp["s"]), "err": None, "any": "ANY"}[exp["r"]], "range", {"range": [v["start"], v["end"], v["step"]]})
            continue
        if v["fam"] == "parity":
            for enc in ("$i64", "$i128"):
                add("{{ n is odd }},{{ n is even }},{{ n is divisible_by(divisor=d) }}", {"n": {enc: str(v["n"])}, "d": v["d"]},
                    "%s,%s,%s" % ("true" if v["odd"] else "false", "false" if v["odd"] else "true", "true" if v["div"] else "false"), "parity", {"parity": [v["n"], v["d"], enc]})
            continue
        if v["fam"] == "parityx":
            x = v["x"]
            n = (2 ** x["k"] - x["m1"]) * (-1 if x["neg"] else 1)
            encs = [e for e, lo, hi in (("$i64", -2**63, 2**63 - 1), ("$u64", 0, 2**64 - 1), ("$i128", -2**127, 2**127 - 1)) if lo <= n <= hi]
            for enc in encs:
                for d in (v["d"], {"$f64": "%d.0" % v["d"]}, {"$i128": str(v["d"])}):
                    add("{{ n is odd }},{{ n is even }},{{ n is divisible_by(divisor=d) }}", {"n": {enc: str(n)}, "d": d},
                        "%s,%s,%s" % ("true" if v["odd"] else "false", "false" if v["odd"] else "true", "true" if v["div"] else "false"), "parity", {"parity": [str(n), v["d"], enc, str(d)]})
            continue
        if v["fam"] == "types":
            if v["recv"] == "bytes":        # not covered by the documentation of the type tests
                continue
            for val in RECV[v["recv"]] + ([{"$u128": str(2**128 - 1)}, {"$i128": str(-2**127)}, {"$u64": str(2**64 - 1)}] if v["recv"] == "int" else []) + \
                       ([{"$f64": "inf"}, {"$f64": "-0.0"}] if v["recv"] == "float" else []):
                names = sorted(v["t"].keys())
                add(",".join("{{ x is %s }}" % n for n in names), {"x": val} if v["recv"] != "undef" else {},
                    ",".join("true" if v["t"][n] else "false" for n in names), "types", {"types": v["recv"]})
            continue
        args = v["args"]
        for ri, rv in enumerate(RECV[v["recv"]]):
            # concrete values per argument state
            choices = []
            for a, st in zip(args, v["st"]):
                if st == "absent":
                    choices.append([None])
                elif st == "right":
                    choices.append(SPECIAL_RIGHT.get((v["name"], a["n"]), RIGHT[a["k"]]))
                elif st == "none":
                    choices.append(["__NONE__"])
                elif st == "edge":
                    choices.append([-1, {"$i128": str(2**100)}, {"$u128": str(2**128 - 1)}, {"$f64": "1e30"}, {"$i64": str(-2**63)}])
                else:
                    choices.append(WRONG[a["k"]] or SPECIAL_RIGHT.get((v["name"], a["n"]), RIGHT[a["k"]]))   # nothing is a wrong value for an `any` argument
            import itertools
            combos = list(itertools.product(*choices))[: (5 if "edge" in v["st"] else 2 if tier == "quick" else 8)]
            for combo in combos:
                ctx = {"x": rv} if v["recv"] != "undef" else {}
                kw = []
                amap = {}
                for a, val in zip(args, combo):
                    if val is None:
                        continue
                    val = None if val == "__NONE__" else val
                    ctx["k_" + a["n"]] = val
                    kw.append("%s=k_%s" % (a["n"], a["n"]))
                    amap[a["n"]] = val
                if v["fam"] == "filter":
                    src = "{{ x | %s(%s) is defined }}" % (v["name"], ", ".join(kw)) if kw else "{{ x | %s is defined }}" % v["name"]
                    ctx["kwmap"] = amap
                    src2 = "{{ x | errkind(name='%s', args=kwmap) }}" % v["name"]
                elif v["fam"] == "test":
                    src = "{{ x is %s(%s) }}" % (v["name"], ", ".join(kw)) if kw else "{{ x is %s }}" % v["name"]
                    src2 = None
                else:
                    src = "{{ %s(%s) is defined }}" % (v["name"], ", ".join(kw))
                    src2 = None
                add(src, ctx, ("CELL", v["cell"]), "cell", {"fam": v["fam"], "name": v["name"], "recv": v["recv"], "st": v["st"], "args": amap})
                if v["fam"] == "filter" and v["recv"] == "str" and ri == 0 and all(s_ in ("absent", "right") for s_ in v["st"]):
                    # the other two ways of applying a filter: on a set block and as a filter section (the receiver is the captured text)
                    call = v["name"] + ("(" + ", ".join(kw) + ")" if kw else "")
                    cell2 = v["cell"] if v["cell"] in ("ok", "err-missing") else "any"
                    add("{% set y | " + call + " %}ab{% endset %}{{ y is defined }}", ctx, ("CELL", cell2), "cell", {"fam": "set-block", "name": v["name"], "recv": "str", "st": v["st"], "args": amap})
                    add("{% filter " + call + " %}ab{% endfilter %}", ctx, ("CELL", cell2), "cell", {"fam": "filter-section", "name": v["name"], "recv": "str", "st": v["st"], "args": amap})
                    add("{% set_global y | " + call + " | " + call + " %}ab{% endset %}{{ y is defined }}", ctx, ("CELL", "any"), "cell", {"fam": "set-block-chain", "name": v["name"], "recv": "str", "st": v["st"], "args": amap})
                if src2 and v["recv"] != "undef" and v["cell"] in ("err-missing", "err-type"):
                    add(src2, ctx, ("KIND", v["cell"]), "cell-kind", {"fam": v["fam"], "name": v["name"], "recv": v["recv"], "st": v["st"], "args": amap})
    # ---- default, conversions against exact arithmetic
    for val, undef, truthy in ((None, False, False), (0, False, False), ("", False, False), ("x", False, True), ([], False, False), ({"$undef": 1}, True, False)):
        for boolean in (False, True):
            taken = (not truthy) if boolean else undef
            ctx = {} if undef else {"x": val}
            add("{{ x | default(value='D', boolean=%s) == 'D' }}" % ("true" if boolean else "false"), ctx, "true" if taken else ("false" if val != "D" else "true"), "default", {"default": str(val), "boolean": boolean})
    for s, base, exp in (("42", None, 42), ("-7", None, -7), ("ff", 16, 255), ("0x1f", 16, 31), ("101", 2, 5), ("0b11", 2, 3), ("17", 8, 15), (str(2**100), None, 2**100), ("zz", None, None), ("", None, None), ("12a", None, None)):
        add("{{ s | int%s }}" % ("(base=%d)" % base if base else ""), {"s": s}, None if exp is None else str(exp), "int", {"int": s, "base": base})
    # floats to integers: exact when the float is whole and fits the 128-bit range, an error otherwise (2^127 does not fit)
    for f_, exp in (("3.0", 3), ("-7.0", -7), (repr(float(2**126)), 2**126), (repr(float(-2**127)), -2**127), (repr(float(2**127)), None), (repr(float(2**128)), None), ("1e40", None),
                    ("inf", None), ("nan", None), (repr(float(2**63)), 2**63), (repr(float(2**64)), 2**64)):
        add("{{ v | int }}", {"v": {"$f64": f_}}, None if exp is None else str(exp), "int-of-float", {"int-of-float": f_})
    for a_, b_, c_, exp in ((0, 5, {"$i128": str(2**64)}, "0,"), (0, 5, {"$i128": str(2**64 + 1)}, "0,"), (5, 0, {"$i128": str(-2**64)}, "5,"), (0, 3, {"$u64": str(2**63)}, "0,")):
        add("{% for i in range(start=a, end=b, step_by=c) %}{{ i }},{% endfor %}", {"a": a_, "b": b_, "c": c_}, exp, "range-huge-step", {"range": [a_, b_, str(c_)]})
    for v_, exp in ((-5, 5), ({"$i64": str(-2**63)}, 2**63), ({"$i128": str(-2**127)}, None), ({"$u128": str(2**128 - 1)}, 2**128 - 1), (0, 0)):
        add("{{ v | abs }}", {"v": v_}, None if exp is None else str(exp), "abs", {"abs": str(v_)})
    for v_, exp in ((5, "5"), ({"$i128": str(-2**127)}, str(-2**127)), ({"$u128": str(2**128 - 1)}, str(2**128 - 1)), (True, "true"), ("a", "a")):
        add("{{ v | str }}|{{ v | str is string }}", {"v": v_}, exp + "|true", "str", {"str": str(v_)})
    # ---- built-ins keep their meaning after register_from(other) where `other` carries callables under built-in names; only
    #      the names this instance lacks are imported (a test named like one of its FILTERS is such a name)
    for src, exp in (("{{ 'ab' | upper }}", "AB"), ("{{ [1, 2] | length }}", "2"), ("{{ 1 is integer }},{{ 1.5 is integer }},{{ 1.5 is float }},{{ 1.5 is number }}", "true,false,true,true"),
                     ("{{ 2 is odd }},{{ 3 is odd }},{{ 2 is even }}", "false,true,true"), ("{{ 'a' is string }},{{ 1 is string }}", "true,false"), ("{{ range(end=2) }}", "[0, 1]"),
                     ("{{ 1 | imported_f }},{{ 1 is imported_t }},{{ imported_fn() }},{{ 1 is upper }}", "IF,true,IFN,true")):
        jobs.append({"cfg": {"probes": True, "register_from": True}, "ctx": {}, "steps": [{"op": "render_str", "src": src, "auto": False}]})
        meta.append((src, exp, "register_from", {"register_from": src}))
    # ---- a built-in reached through State::call_filter from a user filter, inside included templates (one and two levels, in
    #      a loop, under a capture): same value, same error class as at the top level
    for fname, args, recv, exp in (("upper", {}, "ab", "AB"), ("truncate", {"length": 1, "end": "~"}, "abc", "a~"), ("length", {}, [1, 2], "2"), ("join", {"sep": "-"}, ["a", "b"], "a-b")):
        inc = "{{ v | viacall(name='%s', args=a) }}" % fname
        tpls = [["inc", inc], ["inc2", "{% include 'inc' %}"], ["main", inc + "|{% include 'inc' %}|{% include 'inc2' %}|{% for i in [1] %}{% include 'inc' %}{% endfor %}|{% set c %}{% include 'inc2' %}{% endset %}{{ c }}"]]
        jobs.append({"cfg": {"probes": True}, "ctx": {"v": recv, "a": args}, "steps": [{"op": "add", "tpls": tpls}, {"op": "render", "name": "main"}]})
        meta.append(("viacall " + fname, "|".join([exp] * 5), "via-include", {"via-include": fname}))
    for fname, args, recv in (("truncate", {"length": "x"}, "abc"), ("upper", {}, [1]), ("nofilter", {}, "a")):
        inc = "{{ v | errkind(name='%s', args=a) }}" % fname
        tpls = [["inc", inc], ["main", inc + "|{% include 'inc' %}"]]
        jobs.append({"cfg": {"probes": True}, "ctx": {"v": recv, "a": args}, "steps": [{"op": "add", "tpls": tpls}, {"op": "render", "name": "main"}]})
        meta.append(("errkind " + fname, "SAME-BOTH", "via-include", {"via-include-err": fname}))
    res = vp.run_jobs(jobs, tag="c17", timeout=3000)
    for (src, exp, what, key), rr, job in zip(meta, res, jobs):
        C.count()
        x = rr[-1] if what == "via-include" else rr[0]
        if exp == "SAME-BOTH":
            C.nontrivial([what, key])
            parts = (x.get("out") or "|").split("|")
            if not x.get("ok") or len(parts) != 2 or parts[0] != parts[1] or parts[0] == "Ok":
                C.violation(dict(key, kind="via-include"), "%s: at the top level / inside an included template the built-in fails with %s" % (src, x.get("out") if x.get("ok") else (x.get("msg") or x.get("disp", ""))[:100]), {"job": job})
            continue
        k = dict(key, what=what)
        if x.get("panic") or x.get("abort"):
            C.violation(dict(k, kind="panic"), "panic: %s with %s: %s" % (src, job["ctx"], x.get("msg")), {"job": job, "result": x})
            continue
        if what == "strings":
            C.nontrivial(["s", key["s"]])
            got = (x.get("out") or "").split("\x1f") if x.get("ok") else None
            want = exp.split("\x1f")
            if got is None or len(got) != len(want):
                C.violation(dict(kind="strings-error", s=key["s"]), "string filters on %r failed: %s" % (job["ctx"]["s"], (x.get("msg") or x.get("disp", ""))[:150]), {"job": job, "got": x})
                continue
            for name, g, w in zip(key["names"], got, want):
                if g != w:
                    C.violation({"kind": "string", "filter": name, "s": key["s"]}, "%r | %s: engine %r, documented %r" % (job["ctx"]["s"], name, g, w), {"job": job, "filter": name, "expected": w, "got": g})
            continue
        if isinstance(exp, tuple):
            mode, cell = exp
            if cell == "any":
                continue
            C.nontrivial([what, key])
            if mode == "CELL":
                if cell == "ok" and not x.get("ok"):
                    C.violation(dict(k, kind="cell"), "%s with %s must succeed but fails: %s" % (src, job["ctx"], (x.get("msg") or x.get("disp", ""))[:120]), {"job": job, "got": x})
                elif cell.startswith("err") and x.get("ok"):
                    C.violation(dict(k, kind="cell"), "%s with %s must be an error (%s) but gives %r" % (src, job["ctx"], cell, x.get("out")), {"job": job, "got": x})
            else:
                out = x.get("out") if x.get("ok") else "render-error"
                if cell == "err-missing" and out != "MissingArgument":
                    C.violation(dict(k, kind="errkind"), "%s(%s): a missing required argument is reported as %s" % (key["name"], key["args"], out), {"job": job, "got": x})
                if cell == "err-type" and out in ("MissingArgument", "Ok"):
                    C.violation(dict(k, kind="errkind"), "%s(%s): a mistyped argument is reported as %s" % (key["name"], key["args"], out), {"job": job, "got": x})
            continue
        C.nontrivial([what, key])
        if exp == "ANY":
            continue
        if exp is None:
            if x.get("ok"):
                C.violation(dict(k, kind="noerr"), "%s with %s must fail but gives %r" % (src, job["ctx"], x.get("out")), {"job": job, "got": x})
        elif not x.get("ok") or x.get("out") != exp:
            C.violation(dict(k, kind="value"), "%s with %s: engine %s, expected %r" % (src, job["ctx"], repr(x.get("out")) if x.get("ok") else "error: " + (x.get("msg") or x.get("disp", ""))[:100], exp),
                        {"job": job, "expected": exp, "got": x})
    # ---- `keys`, `pairs` and `group_by` hand out map keys: each is the SAME DATA as the text it was inserted under (equal to it,
    #      found by containing / in / starting_with), for keys around the inline-string limit (21 / 22 bytes) and multi-byte ones
    kjobs, kmeta = [], []
    for s_ in ("a", "alpha", "abcdefghijklmnopqrstu", "abcdefghijklmnopqrstuv", "é" * 10 + "x", "k" * 40):
        tests = ["(m | keys) is containing(pat=s)", "s in (m | keys)", "(m | keys | first) == s", "(m | pairs | first | first) == s", "(m | keys | first | default(value='x')) == s",
                 "(m | keys | join) == s", "(m | keys | first) is starting_with(pat=s)", "(m | keys | first) is ending_with(pat=s)", "(ps | group_by(attribute='g') | keys) is containing(pat=s)",
                 "(ps | group_by(attribute='g') | keys | first) == s", "[m | keys | first, s] | unique | length == 1", "(m | keys | first | str) == s", "(m | keys | sort | first) == s",
                 "(m | keys | first | trim) == (m | keys | first)", "(m | keys) == [s]", "(m | pairs) == [[s, 1]]"]
        for owned in (True, False):
            ctx = {"s": s_, "m": {"$map": [[s_ if owned else {"$str": s_}, 1]]}, "ps": [{"g": s_}, {"g": s_}]}
            kjobs.append({"ctx": ctx, "steps": [{"op": "render_str", "src": "".join("{{ %s }}," % t for t in tests), "auto": False}]})
            kmeta.append((s_, owned, tests))
    for (s_, owned, tests), rr, job in zip(kmeta, vp.run_jobs(kjobs, tag="c17-keys"), kjobs):
        C.count(len(tests))
        x = rr[0]
        got = x.get("out", "").split(",")[:-1] if x.get("ok") else []
        if x.get("panic") or x.get("abort") or not x.get("ok") or len(got) != len(tests):
            C.violation({"kind": "key-handout-error", "s": s_, "owned": owned}, "keys / pairs / group_by of a map keyed by %r: %s" % (s_, (x.get("msg") or x.get("disp") or "")[:200]), {"job": job})
            continue
        for t, g in zip(tests, got):
            C.nontrivial(["key-handout", s_, owned, t])
            if g != "true":
                C.violation({"kind": "key-handout", "test": t, "len": len(s_.encode()), "owned": owned}, "{{ %s }} with s = %r and m = {s: 1}: engine %s, expected true (a key handed out by a filter is the text it was inserted under)" % (t, s_, g), {"job": job})
    # (the same for keys that are not strings: a bool, a negative / unsigned / wide integer -- what `keys` and `pairs` hand out
    # is the key, of its own kind, and finds its entry again)
    tjobs, tmeta = [], []
    TT = ["(m | keys | first) == s", "(m | pairs | first | first) == s", "m[m | keys | first] == 1", "(m | keys) == [s]", "[m | keys | first, s] | unique | length == 1",
          "s in (m | keys)", "(m | pairs) == [[s, 1]]", "((m | keys | first) is string) == (s is string)", "((m | keys | first) is bool) == (s is bool)",
          "((m | keys | first) is integer) == (s is integer)", "((m | keys | first) ~ '') == (s ~ '')"]
    for label, s_ in (("true", True), ("false", False), ("-1", {"$i64": "-1"}), ("7u64", {"$u64": "7"}), ("2^70", {"$i128": str(2**70)}), ("2^127+1", {"$u128": str(2**127 + 1)}), ("0", {"$i64": "0"})):
        tjobs.append({"ctx": {"s": s_, "m": {"$map": [[s_, 1]]}}, "steps": [{"op": "render_str", "src": "".join("{{ %s }}," % t for t in TT), "auto": False}]})
        tmeta.append(label)
    for label, rr, job in zip(tmeta, vp.run_jobs(tjobs, tag="c17-keys-typed"), tjobs):
        C.count(len(TT))
        x = rr[0]
        got = x.get("out", "").split(",")[:-1] if x.get("ok") else []
        if x.get("panic") or x.get("abort") or not x.get("ok") or len(got) != len(TT):
            C.violation({"kind": "key-handout-error", "s": label}, "keys / pairs of a map keyed by %s: %s" % (label, (x.get("msg") or x.get("disp") or "")[:200]), {"job": job})
            continue
        for t, g in zip(TT, got):
            C.nontrivial(["key-handout", label, t])
            if g != "true":
                C.violation({"kind": "key-handout", "test": t, "key": label}, "{{ %s }} with s = %s and m = {s: 1}: engine %s, expected true (a key handed out by a filter is the key, of its own kind)" % (t, label, g), {"job": job})
    # ---- the built-in consumers of Sites.tla on operands produced in every way (a literal, `not`, a test, a filter, a call ...)
    import sites
    sites.run(C, "C17", ["entry", "component", "set-block"], only=sites.BUILTIN_CONS)
    kk = len(meta) // 2
    C.sample({"src": meta[kk][0][:200], "ctx": jobs[kk]["ctx"], "expected": str(meta[kk][1])[:200]})
    C.sample({"src": meta[3][0][:300], "ctx": jobs[3]["ctx"]})
    C.assumptions += ["unspecified and checked for no-panic only: bytes/undefined receivers, coercions between scalar receivers, title on punctuation, escape_html of ' (docs &#x27; vs escaper &#39;), "
                      "indent on whitespace-only lines, truncate on \\r\\n, range with start > end and a positive step, `round` on non-representable decimals, Unicode case mapping beyond é/É",
                      "the missing/mistyped distinction is observed through State::call_filter for filters only"]
    return C.finish()


def replay(path):
    d = json.load(open(path))
    print(json.dumps(vp.run_jobs([d["replay"]["job"]], tag="replay"), indent=1)[:3000], "\nexpected:", d["replay"].get("expected"))
    return 0
