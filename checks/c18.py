"""C18 — output channels agree, write failures surface, rendering is pure and thread-safe.

M    TLC (MC_Output): PrefixLaw / OkIffComplete / Monotone of Output!Run on all small write sequences and failure
     points; all interleavings of three concurrent renders over private state.
S→I  (fault enumeration) for every corpus template and each of render_to / render_block_to / render_str_to /
     render_component_to: a failure at EVERY write call and at EVERY byte offset (short-write writer).
I→S  each recorded observation (sizes of the write calls, failure point, bytes accepted, result) is checked by TLC
     against Output!Run: I/O error iff the failure point was reached, accepted = the predicted prefix, Ok => complete.
     render* == render*_to into a buffer; repeated renders and renders from 8 threads sharing one instance are
     byte-identical to the sequential result (the driver only compiles if Tera, Context, Value, Error are Send + Sync)."""
import json, os
import vp, corpus

EXTRA = [
    ("block", [["b.html", "A{% block c %}<{{ x }}>{% for i in xs %}{{ i }},{% endfor %}{% endblock %}Z"],
               ["c.html", "{% extends 'b.html' %}{% block c %}[{{ super() }}]{{ x | upper }}{% endblock %}"]],
     {"op": "render_block", "name": "c.html", "block": "c"}),
    ("component", [["k.html", "{% component Card(title, n=2) %}<h1>{{ title }}</h1>{{ body }}{{ n }}{% endcomponent Card %}"]],
     {"op": "render_component", "name": "Card", "body": "<i>b</i>", "auto": True, "ctx": {"title": "T&t<"}}),
    ("str", [["inc.html", "I{{ x }}"]], {"op": "render_str", "src": "S{{ x }}{% include 'inc.html' %}{% filter upper %}{{ x }}{% endfilter %}", "auto": True}),
    # a block the entry template only INHERITS, a nested one, and one reached through two levels
    ("inherited-block", [["b.html", "A{% block c %}<{{ x }}>{% endblock %}{% block d %}D{{ x }}{% block e %}E{{ xs }}{% endblock %}{% endblock %}Z"],
                         ["c.html", "{% extends 'b.html' %}{% block c %}[{{ super() }}]{% endblock %}"]], {"op": "render_block", "name": "c.html", "block": "d"}),
    ("inherited-nested-block", [["b.html", "A{% block d %}D{{ x }}{% block e %}E{{ xs }}{% endblock %}{% endblock %}Z"], ["c.html", "{% extends 'b.html' %}"],
                                ["g.html", "{% extends 'c.html' %}"]], {"op": "render_block", "name": "g.html", "block": "e"}),
    # maps built while rendering, with keys of several kinds, printed whole: the text must not depend on the map instance
    ("mixed-key-map", [["m.html", "{% set m = {true: x, 1: x, 0: xs, false: 2, 'k': x, 3: 3, 'a': 4, 2: 5} %}{{ m }}|{% set n = {...m, 7: x, 'z': 1} %}{{ n }}|{{ [m, n] }}"]],
     {"op": "render", "name": "m.html"}),
    # maps built while rendering and then ITERATED (for, keys, values, pairs, a group_by result): the order must not depend
    # on the map instance -- every render builds a new one
    ("map-iterated", [["mi.html", "{% set m = {'a': x, 'b': x, 'c': 1, 'd': 2, 'e': 3, 'f': 4, 'g': 5, 'h': 6} %}{% for k, v in m %}{{ k }}={{ v }};{% endfor %}"
                                  "|{{ m | keys | join(sep=',') }}|{{ m | values | join(sep=',') }}|{% for p in m | pairs %}{{ p[0] }}{% endfor %}"
                                  "|{% for k, v in {...m, 'i': x} %}{{ k }}{% endfor %}|{% for k, g in ps | group_by(attribute='g') %}{{ k }}{% endfor %}"
                                  "|{{ [k for k, v in m] | join }}"]],
     {"op": "render", "name": "mi.html"}),
    # the same name in the global context and in the render context (the render context wins, through every channel)
    ("global-shadowed", [["g.html", "{{ x }}|{{ onlyg }}|{% include 'gi.html' %}{% block b %}[{{ x }}{{ onlyg }}]{% endblock %}"], ["gi.html", "I{{ x }}{{ onlyg }}"]], {"op": "render", "name": "g.html"}),
    ("global-shadowed-block", [["g.html", "{% block b %}[{{ x }}{{ onlyg }}{% include 'gi.html' %}]{% endblock %}"], ["gi.html", "I{{ x }}{{ onlyg }}"]], {"op": "render_block", "name": "g.html", "block": "b"}),
    ("global-shadowed-str", [["gi.html", "I{{ x }}{{ onlyg }}"]], {"op": "render_str", "src": "{{ x }}{{ onlyg }}{% include 'gi.html' %}", "auto": True}),
    ("capture", [["p.html", "{% set v %}a{{ x }}b{% endset %}{{ v }}{{ v | safe }}{% for c in x %}{{ c }}{% endfor %}"]], {"op": "render", "name": "p.html"}),
]
ECTX = {"x": "<&é\">", "xs": [1, 2, 3], "title": "T&t", "ps": [{"g": g, "n": i} for i, g in enumerate("qrstuvwq")]}


def run(tier):
    C = vp.Check("C18", tier, "fault_enumeration")
    cap_calls, cap_bytes = (60, 60) if tier == "quick" else (100000, 100000)
    C.cov["rule"] = ("corpus template x {render_to, render_block_to, render_str_to, render_component_to} x failure at every write call and every byte "
                     "offset (evenly sampled beyond %d per template in the quick tier); non-trivial = distinct (template, failure point) reached before the end of the output" % cap_calls)
    # ---- corpus and the unfailing runs
    items = []
    for j in corpus.snapshot_jobs(trace=False, include_errors=False):
        items.append((j["src"], j["cfg"], j["ctx"], j["tpls"], {"op": "render", "name": j["entry"]}))
    for name, tpls, op in EXTRA:
        items.append((name, {"autoescape": [".html"], "gctx": {"x": "GLOBAL", "onlyg": "og", "xs": ["G"], "title": "GT"}} if name.startswith("global") else {"autoescape": [".html"]}, ECTX, tpls, op))
    jobs = []
    for src, cfg, ctx, tpls, op in items:
        plain = dict(op)
        jobs.append({"cfg": cfg, "ctx": ctx, "steps": [{"op": "add", "tpls": tpls}, plain, dict(op, to={}), plain,
                                                         {"op": "threads", "name": op.get("name", ""), "n": 8, "reps": 10 if tier == "quick" else 100} if op["op"] == "render" else {"op": "names"}]})
    base = vp.run_jobs(jobs, tag="c18-base", timeout=3000)
    fjobs, fmeta = [], []
    for (src, cfg, ctx, tpls, op), rr in zip(items, base):
        C.count(3)
        a, b, c, th = rr[1], rr[2], rr[3], rr[4]
        key = {"tpl": src, "op": op["op"]}
        if any(x.get("panic") or x.get("abort") for x in rr):
            C.violation(dict(key, kind="panic"), "panic rendering %s" % src, {"result": rr})
            continue
        if not a.get("ok"):
            if any(src == e[0] for e in EXTRA):
                C.violation(dict(key, kind="setup"), "the extra template %s does not render: %s" % (src, (a.get("msg") or a.get("disp", ""))[:150]), {"result": rr})
            continue
        full = b.get("accepted")
        if not b.get("ok") or full != a.get("out"):
            C.violation(dict(key, kind="channels"), "%s: %s returns %r but %s_to wrote %r" % (src, op["op"], a.get("out"), op["op"], full), {"result": rr})
            continue
        if c.get("out") != a.get("out"):
            C.violation(dict(key, kind="purity"), "%s: a repeated render differs: %r vs %r" % (src, a.get("out"), c.get("out")), {"result": rr})
        if "distinct" in th:
            want = {"ok": True, "out": a.get("out")}
            if th["distinct"] != [want] or th["sequential"] != [want, want]:
                C.violation(dict(key, kind="threads"), "%s: concurrent renders differ from the sequential result: %s" % (src, str(th["distinct"])[:300]), {"result": th})
            C.count(th["renders"])
        sizes, calls = b["sizes"], b["calls"]
        nbytes = len(full.encode("utf-8"))
        ks = list(range(1, calls + 1))
        if len(ks) > cap_calls:
            ks = sorted(set([1, 2, calls - 1, calls] + [1 + (i * (calls - 1)) // cap_calls for i in range(cap_calls)]))
        bs = list(range(0, nbytes))
        if len(bs) > cap_bytes:
            bs = sorted(set([0, 1, nbytes - 1] + [(i * nbytes) // cap_bytes for i in range(cap_bytes)]))
        for m, pts in (("call", ks), ("budget", bs), ("chunk", [1, 2, 3, 7])):
            for k in pts:
                to = {"fail_call": k} if m == "call" else {"budget": k} if m == "budget" else {"chunk": k}
                fjobs.append({"cfg": cfg, "ctx": ctx, "steps": [{"op": "add", "tpls": tpls}, dict(op, to=to)]})
                fmeta.append((src, op["op"], m, k, full, sizes))
    # the two channels agree on requests that FAIL as well: an unknown template / block / component, a block of a template
    # that only inherits it from nowhere, a render error before and after some output
    BT = [["b.html", "A{% block c %}<{{ x }}>{% endblock %}Z"], ["c.html", "{% extends 'b.html' %}{% block c %}[{{ super() }}]{% endblock %}"],
          ["k.html", "{% component Card(title) %}<h1>{{ title }}</h1>{% endcomponent Card %}"], ["e1.html", "{{ nope }}abc"], ["e2.html", "abc{{ nope }}"]]
    FREQ = [{"op": "render", "name": "nope.html"}, {"op": "render_block", "name": "c.html", "block": "nope"}, {"op": "render_block", "name": "b.html", "block": ""},
            {"op": "render_block", "name": "nope.html", "block": "c"}, {"op": "render_block", "name": "k.html", "block": "c"},
            {"op": "render_component", "name": "Nope", "auto": True, "ctx": {}}, {"op": "render_component", "name": "Card", "auto": True, "ctx": {}},
            {"op": "render_component", "name": "Card", "auto": True, "ctx": {"title": 1, "zz": 2}}, {"op": "render", "name": "e1.html"}, {"op": "render", "name": "e2.html"},
            {"op": "render_str", "src": "{% extends 'b.html' %}", "auto": True}, {"op": "render_str", "src": "ab{{ 1 / 0 }}", "auto": True},
            {"op": "render_block", "name": "c.html", "block": "c"}]
    qjobs = [{"cfg": {"autoescape": [".html"]}, "ctx": ECTX, "steps": [{"op": "add", "tpls": BT}, dict(q), dict(q, to={})]} for q in FREQ]
    for q, rr, job in zip(FREQ, vp.run_jobs(qjobs, tag="c18-freq"), qjobs):
        C.count()
        C.nontrivial(["failing-request", json.dumps(q, sort_keys=True)])
        a, b = rr[1], rr[2]
        key = {"kind": "channels-on-failure", "op": q["op"], "name": q.get("name", q.get("src")), "block": q.get("block")}
        if any(x.get("panic") or x.get("abort") for x in rr):
            C.violation(dict(key, kind="panic"), "panic on %s" % q, {"job": job, "result": rr})
        elif bool(a.get("ok")) != bool(b.get("ok")) or (a.get("ok") and a.get("out") != b.get("accepted")):
            C.violation(key, "%s: the String channel gives %s, the writer channel %s" % (q, repr(a.get("out")) if a.get("ok") else "an error (%s)" % (a.get("msg") or a.get("disp", ""))[:80],
                                                                                   ("Ok after writing %r" % b.get("accepted")) if b.get("ok") else "an error"), {"job": job, "result": rr})
    # purity across renders in one process/thread: a render that FAILS half way (inside a component body, a capture, an
    # include, a block) must leave nothing behind for the next render, of the same or of another instance
    FAILING = [("component", [["f.html", "{% component boom(x) %}<li>{{ x }} costs {{ nope }}</li>{% endcomponent boom %}{{<boom x='ink' />}}"]], "f.html"),
               ("capture", [["f.html", "{% set v %}abc {{ nope }}{% endset %}{{ v }}"]], "f.html"),
               ("filter", [["f.html", "{% filter upper %}abc {{ 1 / 0 }}{% endfilter %}"]], "f.html"),
               ("include", [["g.html", "inc {{ nope }}"], ["f.html", "pre {% include 'g.html' %}"]], "f.html"),
               ("block", [["p.html", "P{% block b %}pb {{ nope }}{% endblock %}"], ["f.html", "{% extends 'p.html' %}"]], "f.html")]
    pjobs = []
    for (src, cfg, ctx, tpls, op) in items:
        for fname, ftpls, fentry in FAILING:
            pjobs.append({"cfg": cfg, "ctx": ctx, "steps": [{"op": "add", "tpls": ftpls}, {"op": "render", "name": fentry}, {"op": "render_block", "name": fentry, "block": "b"}]})
            pjobs.append({"cfg": cfg, "ctx": ctx, "steps": [{"op": "add", "tpls": tpls}, dict(op)]})
    pres = vp.run_jobs(pjobs, tag="c18-pure", timeout=3000)
    pi = 0
    for (src, cfg, ctx, tpls, op), rr0 in zip(items, base):
        for fname, ftpls, fentry in FAILING:
            after = pres[pi + 1][1]
            pi += 2
            C.count()
            want = rr0[1]
            if (after.get("ok"), after.get("out")) != (want.get("ok"), want.get("out")):
                C.violation({"kind": "purity-after-failure", "tpl": src, "after": fname},
                            "%s renders %r after a render that failed inside a %s (in the same process), but %r in a fresh process" % (src, after.get("out"), fname, want.get("out")),
                            {"tpl": src, "failing": ftpls})
    fres = vp.run_jobs(fjobs, tag="c18-fault", timeout=3000)
    work = vp.workdir("c18")
    op_path = os.path.join(work, "obs.ndjson")
    nobs = 0
    with open(op_path, "w") as f:
        for (src, opn, m, k, full, sizes), rr in zip(fmeta, fres):
            C.count()
            x = rr[1]
            key = {"tpl": src, "op": opn, "mode": m, "k": k}
            if x.get("panic") or x.get("abort"):
                C.violation(dict(key, kind="panic"), "panic when the writer fails (%s %d) rendering %s" % (m, k, src), {"result": x})
                continue
            acc = x.get("accepted")
            fb = full.encode("utf-8")
            if isinstance(acc, dict):
                ab = bytes(acc["$invalid_utf8"])        # a cut inside a multi-byte character
            else:
                ab = (acc or "").encode("utf-8")
            C.nontrivial([src, opn, m, k])
            obs = {"sizes": sizes, "m": m, "k": k, "ok": bool(x.get("ok")), "accepted": len(ab), "prefix": fb[:len(ab)] == ab,
                   "io": x.get("kind") == "Io", "src": src, "op": opn}
            f.write(json.dumps(obs) + "\n")
            nobs += 1
    # ---- TLC: the laws, the interleavings, and every recorded observation against Output!Run
    r = vp.tlc("MC_Output", "MC_Output", env={"OBS": op_path}, workers=8, timeout=3000, name="c18", allow_fail=True)
    C.add_tlc(r, "MC_Output (laws, interleavings, %d recorded observations)" % nobs)
    if r.ok:
        C.cov["traces_validated_against_impl"] = nobs
    elif r.violated == "InvObs":
        import re
        m = re.search(r"/\\ i = (\d+)", r.out)
        idx = int(m.group(1)) - 1 if m else 0
        obs = [json.loads(l) for l in open(op_path)][idx]
        C.violation({"kind": "fault", "tpl": obs["src"], "op": obs["op"], "mode": obs["m"], "k": obs["k"]},
                    "writer failing at %s %d while rendering %s (%s_to): engine returned %s with %d bytes accepted (prefix: %s, io error: %s); Output!Run disagrees" % (
                        obs["m"], obs["k"], obs["src"], obs["op"], "Ok" if obs["ok"] else "Err", obs["accepted"], obs["prefix"], obs["io"]), {"observation": obs})
    else:
        raise vp.ToolError("MC_Output failed: " + r.error[:300])
    C.sample({"observation": json.loads(open(op_path).readline())} if nobs else {})
    C.sample({"template": items[0][0], "calls": base[0][2].get("calls")})
    C.assumptions += ["Send/Sync themselves are decided by the compiler (the driver contains the static assertions)",
                      "races that need a schedule the 8-thread stress driver does not produce are not excluded"]
    return C.finish()


def replay(path):
    d = json.load(open(path))
    print(json.dumps(d, indent=1)[:3000])
    return 0
