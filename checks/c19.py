"""C19 — data put in a context through serde is represented faithfully.

M    TLC (MC_Serde): enumeration of types of the serde data model up to Depth (every constructor: option, sequence, tuple,
     map with each key kind, struct, newtype struct, enum with unit / newtype / tuple / struct variants, over all primitive
     widths) with sample values; the oracle of Serde.tla: Refused (a map entry whose key is not string/char/integer/bool),
     Lossy (option directly in option, option of unit: not demanded), Shown (what a template prints for scalars).
S→I  each (type, value) goes through a DYNAMIC serde driver (harness/src/bin/serde_probe.rs) that makes exactly the
     Serializer / Deserializer calls a derived impl would make: refused <=> try_from_serializable fails; the value read
     back equals the original through `Deserialize::deserialize(&value)` (the observation point of the property) and
     through `deserialize(value)`, at top level and nested one level down; `{{ v }}` prints integers exactly; re-serialising
     the Value is the identity; Context::from_serialize == insert == insert_value."""
import json, subprocess, os
import vp

W = {"i8": (-2**7, 2**7 - 1), "i16": (-2**15, 2**15 - 1), "i32": (-2**31, 2**31 - 1), "i64": (-2**63, 2**63 - 1), "i128": (-2**127, 2**127 - 1),
     "u8": (0, 2**8 - 1), "u16": (0, 2**16 - 1), "u32": (0, 2**32 - 1), "u64": (0, 2**64 - 1), "u128": (0, 2**128 - 1)}
TEXT = {"s1": "a<é", "s0": "", "c1": "a", "c2": "é", "s2": "\u0417\u0434\u0440\u0430\u0432\u0441\u0442\u0432\u0443\u0439\u0442\u0435"}


def conc(v):
    """symbolic value of the specification -> the harness protocol"""
    k = v["k"]
    if k == "int":
        lo, hi = W[v["w"]]
        return {"k": "int", "w": v["w"], "v": str(hi if v["v"] == "max" else -1 if v["v"] == "m1" else lo)}
    if k in ("char", "str"):
        return {"k": k, "v": TEXT[v["v"]]}
    if k in ("bool", "f64", "f32", "unit", "none"):
        return v
    if k == "some":
        return {"k": "some", "v": conc(v["v"])}
    if k in ("seq", "tuple"):
        return {"k": k, "v": [conc(x) for x in v["v"]]}
    if k == "map":
        return {"k": "map", "v": [[conc(p[0]), conc(p[1])] for p in v["v"]]}
    if k == "struct":
        return {"k": k, "name": v["name"], "v": [[p[0], conc(p[1])] for p in v["v"]]}
    if k == "newtype":
        return {"k": k, "name": v["name"], "v": conc(v["v"])}
    if k == "variant":
        return dict(v, items=[conc(x) for x in v["items"]], fields=[[p[0], conc(p[1])] for p in v["fields"]])
    raise ValueError(k)


def shown(p):
    if p == "?":
        return None
    kind, _, rest = p.partition(":")
    if kind == "lit":
        return rest
    if kind == "text":
        return TEXT[rest]
    w, _, v = rest.partition(":")
    lo, hi = W[w]
    return str(hi if v == "max" else -1 if v == "m1" else lo)


def tyname(ty):
    t = ty["t"]
    if t in ("opt", "seq", "newtype"):
        return "%s<%s>" % (t, tyname(ty["a"]))
    if t == "tuple":
        return "(" + ",".join(tyname(x) for x in ty["ts"]) + ")"
    if t == "map":
        return "map<%s,%s>" % (tyname(ty["k"]), tyname(ty["v"]))
    if t == "struct":
        return "struct{" + ",".join("%s:%s" % (f[0], tyname(f[1])) for f in ty["fs"]) + "}"
    if t == "enum":
        return "enum<%s>" % tyname(ty["vs"][1]["a"])
    return t


def run(tier):
    C = vp.Check("C19", tier, "exploration")
    depth = 2 if tier == "quick" else 3
    with open(vp.SPEC + "/MC_Serde_run.cfg", "w") as f:
        f.write(open(vp.SPEC + "/MC_Serde.cfg").read().replace("Depth = 2", "Depth = %d" % depth))
    r = vp.tlc("MC_Serde", "MC_Serde_run", workers=8, timeout=3000, name="c19", xmx="16g")
    C.add_tlc(r, "MC_Serde Depth=%d" % depth)
    C.cov["exhaustive"] = True
    C.cov["rule"] = ("every type of the enumerated families up to depth %d x its sample values (integer extremes of each width, both booleans, 2 characters, 2 strings, some/none, empty/non-empty containers, "
                     "one value per enum variant); non-trivial = distinct (type, value) accepted for serialisation and not lossy by design" % depth)
    vp.ensure_harness()
    vecs = r.tags["VEC"]
    inp = "\n".join(json.dumps({"id": i, "ty": v["ty"], "val": conc(v["val"])}) for i, v in enumerate(vecs)) + "\n"
    p = subprocess.run([vp.bin_path("serde_probe")], input=inp.encode(), stdout=subprocess.PIPE, stderr=subprocess.DEVNULL, timeout=1800)
    if p.returncode != 0:
        raise vp.ToolError("serde_probe died with %s" % p.returncode)
    res = {}
    for line in p.stdout.decode().split("\n"):
        if not line.strip():
            continue
        x = json.loads(line)
        res[x["id"]] = x
    for i, v in enumerate(vecs):
        C.count()
        x = res.get(i, {"panic": True})
        tn = tyname(v["ty"])
        key = {"type": tn, "value": json.dumps(conc(v["val"]), sort_keys=True)[:160]}
        if x.get("panic"):
            C.violation(dict(key, kind="panic"), "panic converting a %s" % tn, {"vector": v})
            continue
        if v["refused"] != (not x["ser_ok"]):
            C.violation(dict(key, kind="refusal"), "%s value %s: try_from_serializable %s, the documented mapping says it %s" % (
                tn, key["value"], "fails (%s)" % x.get("ser_err") if not x["ser_ok"] else "succeeds", "cannot be represented" if v["refused"] else "can be represented"), {"vector": v, "got": x})
            continue
        if v["refused"]:
            continue
        if not v["lossy"]:
            C.nontrivial([v["ty"], v["val"]])
            for path, what in (("rt_ref", "Deserialize::deserialize(&value)"), ("rt_val", "deserialize(value)"), ("nested_ref", "nested in a struct, deserialize(&value)"), ("nested_val", "nested in a struct, deserialize(value)")):
                if x.get(path) != "ok":
                    C.violation(dict(key, kind="roundtrip", path=path), "%s does not come back through %s: %s" % (tn, what, x.get(path, "")[:160]), {"vector": v, "got": x})
        want = shown(v["print"])
        if want is not None:
            rd = x.get("render", {})
            if not rd.get("ok") or rd.get("out") != want:
                C.violation(dict(key, kind="print"), "{{ v }} for a %s prints %r, the data is %r" % (tn, rd.get("out") if rd.get("ok") else rd.get("msg"), want), {"vector": v, "got": x})
        if not x.get("reser"):
            C.violation(dict(key, kind="reserialise"), "re-serialising the template value of a %s gives a different value" % tn, {"vector": v, "got": x})
        if "keys" in x and v["val"].get("k") == "map" and not v["refused"]:
            def ktext(kv):
                c = conc(kv)
                return c["v"] if c["k"] in ("int", "char", "str") else ("true" if c.get("v") else "false") if c["k"] == "bool" else "?"
            want = sorted(ktext(p_[0]) for p_ in v["val"]["v"])
            kk = x["keys"]
            ok_ = kk.get("ok")
            if ok_:
                loop_, n_, pairs_ = kk["out"].split("|")
                seen = [e_.split("\x1f") for e_ in loop_.split("\x1e")[:-1]]
                ok_ = sorted(e_[0] for e_ in seen) == want and all(e_[1] == "Y" for e_ in seen) and n_ == str(len(want)) and sorted(pairs_.split("\x1e")[:-1]) == want
            if not ok_ and "?" not in want:
                C.violation(dict(key, kind="map-keys"), "the keys of a %s as a template sees them (for k, v / v[k] / keys / pairs): %r, the data has %s" % (tn, kk.get("out", kk.get("msg")), want), {"vector": v, "got": x})
        if x.get("ctx_equiv") is False:
            C.violation(dict(key, kind="context-paths"), "from_serialize / insert / insert_value disagree for a %s: %s" % (tn, x.get("ctx_out", "")[:200]), {"vector": v, "got": x})
    # maps print in sorted key order, whatever the insertion order
    ty = {"t": "map", "k": {"t": "str"}, "v": {"t": "u8"}}
    mk = lambda keys: {"k": "map", "v": [[{"k": "str", "v": k}, {"k": "int", "w": "u8", "v": "1"}] for k in keys]}
    inp = "\n".join(json.dumps({"id": i, "ty": ty, "val": mk(ks)}) for i, ks in enumerate((["b", "a", "c"], ["c", "b", "a"], ["a", "c", "b"]))) + "\n"
    p = subprocess.run([vp.bin_path("serde_probe")], input=inp.encode(), stdout=subprocess.PIPE, timeout=60)
    outs = [json.loads(l)["render"].get("out", "") for l in p.stdout.decode().split("\n") if l.strip()]
    C.count(3)
    if len(set(outs)) != 1 or not (0 <= outs[0].find("a") < outs[0].find("b") < outs[0].find("c")):
        C.violation({"kind": "sorted-keys"}, "maps built in different insertion orders print %s" % outs, {"outs": outs})
    # the same for every key kind, repeatedly (an unsorted print would follow the per-map random iteration order)
    import re as _re
    for kt, keys in (("bool", [{"k": "bool", "v": True}, {"k": "bool", "v": False}]), ("i32", [{"k": "int", "w": "i32", "v": str(x)} for x in (5, -3, 0, -10, -1)]),
                     ("i16", [{"k": "int", "w": "i16", "v": str(x)} for x in (-2, 3, -32768, -1)]), ("i128", [{"k": "int", "w": "i128", "v": str(x)} for x in (-2**100, -5, 2**100, -2**64)]),
                     ("char", [{"k": "char", "v": c} for c in "zab"]), ("u64", [{"k": "int", "w": "u64", "v": str(x)} for x in (2**63, 1, 7)])):
        ty = {"t": "map", "k": {"t": kt}, "v": {"t": "u8"}}
        val = {"k": "map", "v": [[kk, {"k": "int", "w": "u8", "v": "1"}] for kk in keys]}
        inp = "\n".join(json.dumps({"id": i, "ty": ty, "val": val}) for i in range(40)) + "\n"
        p = subprocess.run([vp.bin_path("serde_probe")], input=inp.encode(), stdout=subprocess.PIPE, timeout=60)
        outs = set(json.loads(l)["render"].get("out", "") for l in p.stdout.decode().split("\n") if l.strip())
        C.count(40)
        C.nontrivial(["sorted", kt])
        if len(outs) != 1:
            C.violation({"kind": "sorted-keys", "keytype": kt}, "a map with %s keys prints differently from render to render: %s" % (kt, sorted(outs)[:3]), {"outs": sorted(outs)})
        elif keys[0]["k"] == "int":
            printed = [int(x) for x in _re.findall(r"(-?\d+): ", next(iter(outs)))]
            if printed != sorted(int(k_["v"]) for k_ in keys):
                C.violation({"kind": "sorted-keys-order", "keytype": kt}, "a map with %s keys %s prints them in the order %s" % (kt, [k_["v"] for k_ in keys], printed), {"outs": sorted(outs)})
    k = len(vecs) // 2
    C.sample({"type": tyname(vecs[k]["ty"]), "value": conc(vecs[k]["val"]), "refused": vecs[k]["refused"], "lossy": vecs[k]["lossy"], "print": vecs[k]["print"]})
    C.assumptions += ["the dynamic driver makes the Serializer/Deserializer calls of derived impls (missing Option fields -> None; structs accept maps and sequences; newtype visitors accept "
                      "visit_newtype_struct and visit_seq)", "not demanded: Option<Option<_>>, Option<()>, f32 widening text, HashMap iteration order"]
    return C.finish()


def replay(path):
    d = json.load(open(path))["replay"]["vector"]
    inp = json.dumps({"id": 0, "ty": d["ty"], "val": conc(d["val"])}) + "\n"
    vp.ensure_harness()
    print(subprocess.run([vp.bin_path("serde_probe")], input=inp.encode(), stdout=subprocess.PIPE).stdout.decode())
    return 0
