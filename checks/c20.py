"""C20 — tera-contrib codecs are lossless and emit only their target alphabet.

I→S  (laws over recorded calls, Codecs.tla / MC_Codecs) for every input string the harness renders
     `s | b64_encode(url_safe, padded)`, its `b64_decode`, a decode of a corrupted encoding, `urlencode`,
     `urlencode_strict`, `slug`, and for every value `v | json_encode`; each (input, options, output, decoded) record is
     checked by TLC: base64 alphabet per option, `=` only as a suffix of the RFC 4648 length, round trip, refusal of a
     foreign character; percent-encoding alphabet and a TLA+ percent-decoder giving back the UTF-8 bytes; slug shape;
     a JSON recogniser/decoder written in TLA+ over code points accepts the output and the decoded tree is the same data.
Inputs: bounded-exhaustive strings over a 40-character alphabet (all ASCII punctuation classes, space, controls, 2/3/4-byte
     characters) plus random long strings; JSON trees of depth <= 3."""
import json, os, random, itertools
import vp

ALPHA = list("aZ09 -_.~/+=%&?#<>\"'\\:@!$()*,;[]{}|^`") + ["\n", "\t", "\x01", "é", "ß", "世", "\U0001F600", "​"]


def cps(s):
    return [ord(c) for c in s]


def tree(v):
    if v is None:
        return {"t": "null"}
    if isinstance(v, bool):
        return {"t": "bool", "b": v}
    if isinstance(v, int):
        return {"t": "num", "d": cps(str(v)), "float": False}
    if isinstance(v, float):
        return {"t": "num", "d": [], "float": True}
    if isinstance(v, str):
        return {"t": "str", "s": cps(v)}
    if isinstance(v, list):
        return {"t": "arr", "xs": [tree(x) for x in v]}
    return {"t": "obj", "ks": [cps(str(k).lower() if isinstance(k, bool) else str(k)) for k in v], "vs": [tree(x) for x in v.values()]}


def typed(v):
    if isinstance(v, bool) or v is None or isinstance(v, str):
        return v
    if isinstance(v, int):
        return {"$i128": str(v)} if v < 2**127 else {"$u128": str(v)}
    if isinstance(v, float):
        return {"$f64": repr(v)}
    if isinstance(v, list):
        return [typed(x) for x in v]
    return {"$map": [[(k if isinstance(k, (str, bool)) else {"$i64": str(k)} if -2**63 <= k < 2**63 else {"$i128": str(k)}), typed(x)] for k, x in v.items()]}


def run(tier):
    C = vp.Check("C20", tier, "other")
    rnd = random.Random(vp.seed() + 31)
    maxlen = 2 if tier == "quick" else 3
    strings = [""]
    for n in range(1, maxlen + 1):
        if n < 3:
            strings += ["".join(t) for t in itertools.product(ALPHA, repeat=n)]
        else:
            strings += ["".join(rnd.choice(ALPHA) for _ in range(3)) for _ in range(15000)]
    strings += ["".join(rnd.choice(ALPHA) for _ in range(rnd.randint(4, 120))) for _ in range(100 if tier == "quick" else 1000)]
    # hyphen runs in texts that are otherwise already slugs; texts whose base64 form decodes to bytes that are not UTF-8
    strings += ["a--b", "a---b", "2024-01--draft", "-a", "a-", "a--", "--a--b--", "ab-cd", "well--known", "x-", "-", "--", "a-b--c"]
    strings = list(dict.fromkeys(strings))
    jobs = []
    for s in strings:
        steps = []
        for us in (False, True):
            for pad in (False, True):
                o = "url_safe=%s, padded=%s" % ("true" if us else "false", "true" if pad else "false")
                steps.append({"op": "render_str", "src": "{{ s | b64_encode(%s) }}" % o, "auto": False})
                steps.append({"op": "render_str", "src": "{{ s | b64_encode(%s) | b64_decode(url_safe=%s) }}" % (o, "true" if us else "false"), "auto": False})
                steps.append({"op": "render_str", "src": "{{ ('!' ~ (s | b64_encode(%s))) | b64_decode(url_safe=%s) }}" % (o, "true" if us else "false"), "auto": False})
                steps.append({"op": "render_str", "src": "{{ nc%d%d | b64_decode(url_safe=%s) }}" % (us, pad, "true" if us else "false"), "auto": False})
        steps += [{"op": "render_str", "src": "{{ s | urlencode }}", "auto": False}, {"op": "render_str", "src": "{{ s | urlencode_strict }}", "auto": False},
                  {"op": "render_str", "src": "{{ s | slug }}", "auto": False}]
        # a text with left-over bits set in its last symbol: in the alphabet, of the right length, but produced by no encoder
        ctx = {"s": s}
        import base64 as _b
        for us in (False, True):
            for pad in (False, True):
                raw = s.encode()
                e = (_b.urlsafe_b64encode(raw) if us else _b.b64encode(raw)).decode()
                body = e.rstrip("=")
                nc = "!"            # (nothing to corrupt when the length is a multiple of 3: an out-of-alphabet text stands in)
                if len(raw) % 3:
                    alpha = "ABCDEFGHIJKLMNOPQRSTUVWXYZabcdefghijklmnopqrstuvwxyz0123456789" + ("-_" if us else "+/")
                    nc = body[:-1] + alpha[alpha.index(body[-1]) | 1] + (e[len(body):] if pad else "")
                    assert nc != (e if pad else body)
                ctx["nc%d%d" % (us, pad)] = nc
        jobs.append({"cfg": {"contrib": True}, "ctx": ctx, "steps": steps})
    # JSON values
    scal = [None, True, False, 0, -1, 2**63 - 1, -2**63, 2**64 - 1, 2**64, -2**63 - 1, 2**127 - 1, -2**127, 2**128 - 1, 0.5, -2.25, 1e300, "", "a\"b\\c", "\n\t\x01", "é世\U0001F600", "</script>"]
    vals = list(scal) + [{-1: "x", 5: "y"}, {-2**63: 1, 2**70: [2], 0: None}, {True: 1, "a": {-7: "neg"}}, [], {}, [1, "a", None], {"a": 1, "b": [True, {"c": "d\""}]}, {"é": {"\"": [[], {}]}}, [[["x"]]], {"k": 0.5, "z": [1.5, -1]}]
    for _ in range(50 if tier == "quick" else 500):
        def gen(d):
            r = rnd.random()
            if d == 0 or r < 0.4:
                return rnd.choice(scal)
            if r < 0.7:
                return [gen(d - 1) for _ in range(rnd.randint(0, 3))]
            return {"".join(rnd.choice(ALPHA) for _ in range(rnd.randint(0, 3))): gen(d - 1) for _ in range(rnd.randint(0, 3))}
        vals.append(gen(3))
    # every integer also in each narrower encoding that holds it (the serialiser has one arm per width)
    ENC = [("$i64", -2**63, 2**63 - 1), ("$u64", 0, 2**64 - 1), ("$i128", -2**127, 2**127 - 1), ("$u128", 0, 2**128 - 1)]
    extra = [(v, {e: str(v)}) for v in scal if isinstance(v, int) and not isinstance(v, bool) for e, lo, hi in ENC if lo <= v <= hi]
    extra += [([v], [{e: str(v)}]) for v in (2**64, -2**63 - 1, 2**127 - 1, -2**127) for e, lo, hi in ENC if lo <= v <= hi]
    jjobs = [{"cfg": {"contrib": True}, "ctx": {"v": tv}, "steps": [{"op": "render_str", "src": "{{ v | json_encode }}", "auto": False},
                                                                           {"op": "render_str", "src": "{{ v | json_encode(pretty=true) }}", "auto": False}]}
             for v, tv in [(v, typed(v)) for v in vals] + extra]
    vals = vals + [v for v, _ in extra]
    res = vp.run_jobs(jobs, tag="c20", timeout=3000)
    jres = vp.run_jobs(jjobs, tag="c20-json", timeout=3000)
    work = vp.workdir("c20")
    op = os.path.join(work, "obs.ndjson")
    recs = []
    with open(op, "w") as f:
        for s, rr in zip(strings, res):
            if any(y.get("panic") or y.get("abort") for y in rr):
                C.violation({"kind": "panic", "s": s}, "panic in a contrib filter on %r" % s, {"s": s, "result": rr})
                continue
            k = 0
            for us in (False, True):
                for pad in (False, True):
                    e, d, b, ncr = rr[k], rr[k + 1], rr[k + 2], rr[k + 3]
                    k += 4
                    C.count(4)
                    if not e.get("ok"):
                        C.violation({"kind": "b64-error", "s": s}, "b64_encode failed on %r" % s, {"s": s, "result": e})
                        continue
                    o = {"f": "b64", "s": cps(s), "utf8": list(s.encode()), "enc": cps(e["out"]), "urlsafe": us, "padded": pad, "decok": bool(d.get("ok")),
                         "dec": cps(d.get("out", "")) if d.get("ok") else [], "badok": bool(b.get("ok")), "ncok": bool(ncr.get("ok")), "src": s}
                    f.write(json.dumps(o) + "\n")
                    recs.append(o)
            for name, strict in (("urlencode", False), ("urlencode_strict", True)):
                e = rr[k]
                k += 1
                C.count()
                o = {"f": "url", "s": cps(s), "utf8": list(s.encode()), "enc": cps(e.get("out", "")) if e.get("ok") else [-1], "strict": strict, "src": s}
                f.write(json.dumps(o) + "\n")
                recs.append(o)
            e = rr[k]
            C.count()
            o = {"f": "slug", "s": cps(s), "enc": cps(e.get("out", "")) if e.get("ok") else [-1], "src": s}
            f.write(json.dumps(o) + "\n")
            recs.append(o)
        for v, rr in zip(vals, jres):
            if any(y.get("panic") or y.get("abort") for y in rr):
                C.violation({"kind": "panic", "v": json.dumps(v)[:80]}, "panic in json_encode on %s" % json.dumps(v)[:100], {"v": v})
                continue
            for e in rr:
                C.count()
                o = {"f": "json", "enc": cps(e.get("out", "")) if e.get("ok") else [-1], "tree": tree(v), "src": json.dumps(v)[:200]}
                f.write(json.dumps(o) + "\n")
                recs.append(o)
    # well-formed base64 whose payload is not UTF-8: invalid input to the decoder, an error (not a repaired text)
    for enc_ in ("/w==", "gA==", "wyg=", "7aCA", "8JCA", "/w", "_w=="):
        for us_ in ("true", "false"):
            rj = vp.run_jobs([{"cfg": {"contrib": True}, "ctx": {"s": enc_}, "steps": [{"op": "render_str", "src": "{{ s | b64_decode(url_safe=%s) }}" % us_, "auto": False}]}], tag="c20-nonutf8")[0][0]
            C.count()
            C.nontrivial(["non-utf8", enc_, us_])
            if rj.get("ok") or rj.get("panic"):
                C.violation({"kind": "b64-non-utf8", "enc": enc_, "url_safe": us_}, "b64_decode(url_safe=%s) of %r, whose payload is not UTF-8, gives %r" % (us_, enc_, rj.get("out", "panic")), {"enc": enc_})
    # options of the wrong kind, and the codecs applied on a set block / as a filter section: an error value, never a panic
    ojobs = []
    for call in ("b64_encode(url_safe=1)", "b64_encode(padded='no')", "b64_decode(url_safe=1)", "b64_decode(url_safe=none)", "json_encode(pretty='true')", "json_encode(pretty=none)", "urlencode(x=1)",
                 "slug(x=1)", "b64_encode(url_safe=true, padded=false)", "b64_decode", "json_encode(pretty=true)", "urlencode", "urlencode_strict", "slug"):
        for form in ("{{ v | %s }}", "{%% set y | %s %%}a b{%% endset %%}{{ y }}", "{%% filter %s %%}a b{%% endfilter %%}", "{%% set_global y | %s | %s %%}YQ{%% endset %%}{{ y }}"):
            for val in ("a b", "YQ==", [1], None):
                ojobs.append({"cfg": {"contrib": True}, "ctx": {"v": val}, "steps": [{"op": "render_str", "src": form % ((call,) * form.count("%s")), "auto": False}]})
    for oj, orr in zip(ojobs, vp.run_jobs(ojobs, tag="c20-opts")):
        C.count()
        C.nontrivial(["opts", oj["steps"][0]["src"], str(oj["ctx"]["v"])])
        if orr[0].get("panic") or orr[0].get("abort"):
            C.violation({"kind": "panic-options", "src": oj["steps"][0]["src"]}, "panic: %s with %r: %s" % (oj["steps"][0]["src"], oj["ctx"]["v"], orr[0].get("msg")), {"job": oj})
    r = vp.tlc("MC_Codecs", "MC_Codecs", env={"OBS": op}, workers=16, timeout=6000, name="c20", xmx="24g", allow_fail=True)
    C.add_tlc(r, "MC_Codecs over %d recorded calls" % len(recs))
    bad = set()
    tries = 0
    while not r.ok and tries < 12:
        if r.violated != "InvCodec":
            raise vp.ToolError("MC_Codecs failed: " + r.error[:400])
        import re
        m = re.search(r"/\\ i = (\d+)|^i = (\d+)", r.out, re.M)
        idx = int(m.group(1) or m.group(2)) - 1
        o = recs[idx]
        C.violation({"kind": o["f"], "src": o["src"], "opts": [o.get("urlsafe"), o.get("padded"), o.get("strict")]},
                    "%s law broken on input %r: output %r%s" % (o["f"], o["src"], "".join(chr(c) for c in o["enc"] if c >= 0)[:120],
                                                               (", decoded ok=%s %r, foreign character accepted=%s" % (o["decok"], "".join(chr(c) for c in o["dec"])[:60], o["badok"])) if o["f"] == "b64" else ""),
                    {"observation": {k: v for k, v in o.items() if k != "tree"}})
        # drop the offending record and continue so that other broken laws are reported too
        recs.pop(idx)
        with open(op, "w") as f:
            for o2 in recs:
                f.write(json.dumps(o2) + "\n")
        r = vp.tlc("MC_Codecs", "MC_Codecs", env={"OBS": op}, workers=16, timeout=6000, name="c20", xmx="24g", allow_fail=True)
        tries += 1
    if r.ok:
        C.cov["traces_validated_against_impl"] = len(recs)
    for o in recs[:: max(1, len(recs) // 5000)]:
        C.nontrivial([o["f"], o["src"], o.get("urlsafe"), o.get("padded"), o.get("strict")])
    C.cov["distinct_inputs"] = len(strings) + len(vals)
    C.cov["explanation"] = "laws of Codecs.tla model-checked by TLC over %d recorded codec calls (%d strings up to length %d exhaustively + random long ones; %d JSON values)" % (
        len(recs), len(strings), min(maxlen, 2), len(vals))
    C.cov["rule"] = "recorded (input, options, output, decoded) tuples; distinct_nontrivial counts a sample of at most 5000 distinct records"
    C.sample({k: v for k, v in recs[len(recs) // 2].items() if k != "tree"})
    C.assumptions += ["the exact slug transliteration and JSON number formatting of floats are not demanded", "non-finite floats are excluded from json_encode inputs"]
    return C.finish()


def replay(path):
    print(open(path).read()[:3000])
    return 0
