//! C19 driver: a DYNAMIC instance of the serde data model.
//!
//! `Term` (a value) serialises itself by calling exactly the Serializer methods a derived impl would call for
//! the type `Ty`; `Seed(&Ty)` deserialises by calling exactly the Deserializer hint methods a derived impl
//! would call (deserialize_option / _enum / _newtype_struct / _struct / _tuple / ...), with visitors that accept
//! what derived visitors accept.  So every type the specification enumerates from the serde data model can be
//! pushed through Value::try_from_serializable and read back through `&Value` and `Value`, at top level and
//! nested, without a fixed family of Rust types.  The runner knows no expected results.
use serde::de::{self, DeserializeSeed, Deserializer, EnumAccess, MapAccess, SeqAccess, VariantAccess, Visitor};
use serde::ser::{Serialize, SerializeMap, SerializeSeq, SerializeStruct, SerializeStructVariant, SerializeTuple, SerializeTupleVariant, Serializer};
use serde_json::{Value as J, json};
use std::fmt;
use std::io::{BufRead, Write};
use tera::{Context, Tera, Value};

fn leak(s: &str) -> &'static str {
    Box::leak(s.to_string().into_boxed_str())
}

#[derive(Debug, Clone)]
enum Term {
    Bool(bool),
    Int(String, String), // width, decimal digits
    F64(f64),
    F32(f32),
    Char(char),
    Str(String),
    Unit,
    None,
    Some(Box<Term>),
    Seq(Vec<Term>),
    Tuple(Vec<Term>),
    Map(Vec<(Term, Term)>),
    Struct(String, Vec<(String, Term)>),
    Newtype(String, Box<Term>),
    Variant { name: String, idx: u32, vn: String, vk: String, items: Vec<Term>, fields: Vec<(String, Term)> },
}

/// equality of the data: maps are unordered collections of entries (like HashMap / BTreeMap equality)
impl PartialEq for Term {
    fn eq(&self, o: &Term) -> bool {
        use Term::*;
        match (self, o) {
            (Bool(a), Bool(b)) => a == b,
            (Int(w, a), Int(x, b)) => w == x && a == b,
            // bit for bit: -0.0 is not 0.0
            (F64(a), F64(b)) => a.to_bits() == b.to_bits(),
            (F32(a), F32(b)) => a.to_bits() == b.to_bits(),
            (Char(a), Char(b)) => a == b,
            (Str(a), Str(b)) => a == b,
            (Unit, Unit) | (None, None) => true,
            (Some(a), Some(b)) => a == b,
            (Seq(a), Seq(b)) | (Tuple(a), Tuple(b)) => a == b,
            (Map(a), Map(b)) => a.len() == b.len() && a.iter().all(|e| b.iter().any(|f| e.0 == f.0 && e.1 == f.1)),
            (Struct(n, a), Struct(m, b)) => n == m && a == b,
            (Newtype(n, a), Newtype(m, b)) => n == m && a == b,
            (
                Variant { name: a1, idx: a2, vn: a3, vk: a4, items: a5, fields: a6 },
                Variant { name: b1, idx: b2, vn: b3, vk: b4, items: b5, fields: b6 },
            ) => a1 == b1 && a2 == b2 && a3 == b3 && a4 == b4 && a5 == b5 && a6 == b6,
            _ => false,
        }
    }
}

fn term_of(j: &J) -> Term {
    let k = j["k"].as_str().unwrap();
    match k {
        "bool" => Term::Bool(j["v"].as_bool().unwrap()),
        "int" => Term::Int(j["w"].as_str().unwrap().into(), j["v"].as_str().unwrap().into()),
        "f64" => Term::F64(j["v"].as_str().unwrap().parse().unwrap()),
        "f32" => Term::F32(j["v"].as_str().unwrap().parse().unwrap()),
        "char" => Term::Char(j["v"].as_str().unwrap().chars().next().unwrap()),
        "str" => Term::Str(j["v"].as_str().unwrap().into()),
        "unit" => Term::Unit,
        "none" => Term::None,
        "some" => Term::Some(Box::new(term_of(&j["v"]))),
        "seq" => Term::Seq(j["v"].as_array().unwrap().iter().map(term_of).collect()),
        "tuple" => Term::Tuple(j["v"].as_array().unwrap().iter().map(term_of).collect()),
        "map" => Term::Map(j["v"].as_array().unwrap().iter().map(|p| (term_of(&p[0]), term_of(&p[1]))).collect()),
        "struct" => Term::Struct(
            j["name"].as_str().unwrap().into(),
            j["v"].as_array().unwrap().iter().map(|p| (p[0].as_str().unwrap().to_string(), term_of(&p[1]))).collect(),
        ),
        "newtype" => Term::Newtype(j["name"].as_str().unwrap().into(), Box::new(term_of(&j["v"]))),
        "variant" => Term::Variant {
            name: j["name"].as_str().unwrap().into(),
            idx: j["idx"].as_u64().unwrap() as u32,
            vn: j["vn"].as_str().unwrap().into(),
            vk: j["vk"].as_str().unwrap().into(),
            items: j.get("items").and_then(|x| x.as_array()).map(|a| a.iter().map(term_of).collect()).unwrap_or_default(),
            fields: j
                .get("fields")
                .and_then(|x| x.as_array())
                .map(|a| a.iter().map(|p| (p[0].as_str().unwrap().to_string(), term_of(&p[1]))).collect())
                .unwrap_or_default(),
        },
        _ => panic!("bad term kind {k}"),
    }
}

impl Serialize for Term {
    fn serialize<S: Serializer>(&self, s: S) -> Result<S::Ok, S::Error> {
        match self {
            Term::Bool(b) => s.serialize_bool(*b),
            Term::Int(w, d) => match w.as_str() {
                "i8" => s.serialize_i8(d.parse().unwrap()),
                "i16" => s.serialize_i16(d.parse().unwrap()),
                "i32" => s.serialize_i32(d.parse().unwrap()),
                "i64" => s.serialize_i64(d.parse().unwrap()),
                "i128" => s.serialize_i128(d.parse().unwrap()),
                "u8" => s.serialize_u8(d.parse().unwrap()),
                "u16" => s.serialize_u16(d.parse().unwrap()),
                "u32" => s.serialize_u32(d.parse().unwrap()),
                "u64" => s.serialize_u64(d.parse().unwrap()),
                "u128" => s.serialize_u128(d.parse().unwrap()),
                _ => unreachable!(),
            },
            Term::F64(f) => s.serialize_f64(*f),
            Term::F32(f) => s.serialize_f32(*f),
            Term::Char(c) => s.serialize_char(*c),
            Term::Str(x) => s.serialize_str(x),
            Term::Unit => s.serialize_unit(),
            Term::None => s.serialize_none(),
            Term::Some(x) => s.serialize_some(&**x),
            Term::Seq(xs) => {
                let mut q = s.serialize_seq(Some(xs.len()))?;
                for x in xs {
                    q.serialize_element(x)?;
                }
                q.end()
            }
            Term::Tuple(xs) => {
                let mut q = s.serialize_tuple(xs.len())?;
                for x in xs {
                    q.serialize_element(x)?;
                }
                q.end()
            }
            Term::Map(es) => {
                let mut m = s.serialize_map(Some(es.len()))?;
                for (k, v) in es {
                    m.serialize_entry(k, v)?;
                }
                m.end()
            }
            Term::Struct(name, fs) => {
                let mut st = s.serialize_struct(leak(name), fs.len())?;
                for (k, v) in fs {
                    st.serialize_field(leak(k), v)?;
                }
                st.end()
            }
            Term::Newtype(name, x) => s.serialize_newtype_struct(leak(name), &**x),
            Term::Variant { name, idx, vn, vk, items, fields } => match vk.as_str() {
                "unit" => s.serialize_unit_variant(leak(name), *idx, leak(vn)),
                "newtype" => s.serialize_newtype_variant(leak(name), *idx, leak(vn), &items[0]),
                "tuple" => {
                    let mut t = s.serialize_tuple_variant(leak(name), *idx, leak(vn), items.len())?;
                    for x in items {
                        t.serialize_field(x)?;
                    }
                    t.end()
                }
                _ => {
                    let mut t = s.serialize_struct_variant(leak(name), *idx, leak(vn), fields.len())?;
                    for (k, v) in fields {
                        t.serialize_field(leak(k), v)?;
                    }
                    t.end()
                }
            },
        }
    }
}

// ------------------------------------------------------------------ deserialisation guided by a type descriptor
#[derive(Clone, Copy)]
struct Seed<'a>(&'a J);

struct IntV<'a>(&'a str);
impl<'de, 'a> Visitor<'de> for IntV<'a> {
    type Value = Term;
    fn expecting(&self, f: &mut fmt::Formatter) -> fmt::Result {
        write!(f, "{}", self.0)
    }
    fn visit_i64<E: de::Error>(self, v: i64) -> Result<Term, E> {
        self.visit_i128(v as i128)
    }
    fn visit_u64<E: de::Error>(self, v: u64) -> Result<Term, E> {
        self.visit_u128(v as u128)
    }
    fn visit_i128<E: de::Error>(self, v: i128) -> Result<Term, E> {
        let ok = match self.0 {
            "i8" => i8::try_from(v).is_ok(),
            "i16" => i16::try_from(v).is_ok(),
            "i32" => i32::try_from(v).is_ok(),
            "i64" => i64::try_from(v).is_ok(),
            "i128" => true,
            "u8" => u8::try_from(v).is_ok(),
            "u16" => u16::try_from(v).is_ok(),
            "u32" => u32::try_from(v).is_ok(),
            "u64" => u64::try_from(v).is_ok(),
            _ => u128::try_from(v).is_ok(),
        };
        if ok { Ok(Term::Int(self.0.to_string(), v.to_string())) } else { Err(E::custom(format!("{v} out of range for {}", self.0))) }
    }
    fn visit_u128<E: de::Error>(self, v: u128) -> Result<Term, E> {
        match i128::try_from(v) {
            Ok(i) => self.visit_i128(i),
            Err(_) => {
                if self.0 == "u128" { Ok(Term::Int("u128".into(), v.to_string())) } else { Err(E::custom(format!("{v} out of range for {}", self.0))) }
            }
        }
    }
}

struct Prim(&'static str);
impl<'de> Visitor<'de> for Prim {
    type Value = Term;
    fn expecting(&self, f: &mut fmt::Formatter) -> fmt::Result {
        write!(f, "{}", self.0)
    }
    fn visit_bool<E: de::Error>(self, v: bool) -> Result<Term, E> {
        if self.0 == "bool" { Ok(Term::Bool(v)) } else { Err(E::invalid_type(de::Unexpected::Bool(v), &self)) }
    }
    fn visit_f64<E: de::Error>(self, v: f64) -> Result<Term, E> {
        match self.0 {
            "f64" => Ok(Term::F64(v)),
            "f32" => Ok(Term::F32(v as f32)),
            _ => Err(E::invalid_type(de::Unexpected::Float(v), &self)),
        }
    }
    fn visit_i64<E: de::Error>(self, v: i64) -> Result<Term, E> {
        match self.0 {
            "f64" => Ok(Term::F64(v as f64)),
            "f32" => Ok(Term::F32(v as f32)),
            _ => Err(E::invalid_type(de::Unexpected::Signed(v), &self)),
        }
    }
    fn visit_u64<E: de::Error>(self, v: u64) -> Result<Term, E> {
        match self.0 {
            "f64" => Ok(Term::F64(v as f64)),
            "f32" => Ok(Term::F32(v as f32)),
            _ => Err(E::invalid_type(de::Unexpected::Unsigned(v), &self)),
        }
    }
    fn visit_char<E: de::Error>(self, v: char) -> Result<Term, E> {
        if self.0 == "char" { Ok(Term::Char(v)) } else { Err(E::invalid_type(de::Unexpected::Char(v), &self)) }
    }
    fn visit_str<E: de::Error>(self, v: &str) -> Result<Term, E> {
        match self.0 {
            "str" => Ok(Term::Str(v.to_string())),
            "char" => {
                let mut it = v.chars();
                match (it.next(), it.next()) {
                    (Some(c), None) => Ok(Term::Char(c)),
                    _ => Err(E::invalid_value(de::Unexpected::Str(v), &self)),
                }
            }
            _ => Err(E::invalid_type(de::Unexpected::Str(v), &self)),
        }
    }
    fn visit_unit<E: de::Error>(self) -> Result<Term, E> {
        if self.0 == "unit" { Ok(Term::Unit) } else { Err(E::invalid_type(de::Unexpected::Unit, &self)) }
    }
}

struct OptV<'a>(&'a J);
impl<'de, 'a> Visitor<'de> for OptV<'a> {
    type Value = Term;
    fn expecting(&self, f: &mut fmt::Formatter) -> fmt::Result {
        write!(f, "option")
    }
    fn visit_none<E: de::Error>(self) -> Result<Term, E> {
        Ok(Term::None)
    }
    fn visit_unit<E: de::Error>(self) -> Result<Term, E> {
        Ok(Term::None)
    }
    fn visit_some<D: Deserializer<'de>>(self, d: D) -> Result<Term, D::Error> {
        Ok(Term::Some(Box::new(Seed(&self.0["a"]).deserialize(d)?)))
    }
}

struct SeqV<'a> {
    elem: Option<&'a J>,
    elems: Option<&'a Vec<J>>,
    tuple: bool,
}
impl<'de, 'a> Visitor<'de> for SeqV<'a> {
    type Value = Term;
    fn expecting(&self, f: &mut fmt::Formatter) -> fmt::Result {
        write!(f, "sequence")
    }
    fn visit_seq<A: SeqAccess<'de>>(self, mut a: A) -> Result<Term, A::Error> {
        let mut out = Vec::new();
        if let Some(tys) = self.elems {
            for (i, ty) in tys.iter().enumerate() {
                match a.next_element_seed(Seed(ty))? {
                    Some(x) => out.push(x),
                    None => return Err(de::Error::invalid_length(i, &self)),
                }
            }
            return Ok(Term::Tuple(out));
        }
        while let Some(x) = a.next_element_seed(Seed(self.elem.unwrap()))? {
            out.push(x);
        }
        Ok(if self.tuple { Term::Tuple(out) } else { Term::Seq(out) })
    }
}

struct MapV<'a>(&'a J);
impl<'de, 'a> Visitor<'de> for MapV<'a> {
    type Value = Term;
    fn expecting(&self, f: &mut fmt::Formatter) -> fmt::Result {
        write!(f, "map")
    }
    fn visit_map<A: MapAccess<'de>>(self, mut a: A) -> Result<Term, A::Error> {
        let mut out = Vec::new();
        while let Some(k) = a.next_key_seed(Seed(&self.0["k"]))? {
            let v = a.next_value_seed(Seed(&self.0["v"]))?;
            out.push((k, v));
        }
        Ok(Term::Map(out))
    }
}

struct Ident;
impl<'de> DeserializeSeed<'de> for Ident {
    type Value = String;
    fn deserialize<D: Deserializer<'de>>(self, d: D) -> Result<String, D::Error> {
        struct V;
        impl<'de> Visitor<'de> for V {
            type Value = String;
            fn expecting(&self, f: &mut fmt::Formatter) -> fmt::Result {
                write!(f, "identifier")
            }
            fn visit_str<E: de::Error>(self, v: &str) -> Result<String, E> {
                Ok(v.to_string())
            }
            fn visit_u64<E: de::Error>(self, v: u64) -> Result<String, E> {
                Ok(format!("#{v}"))
            }
        }
        d.deserialize_identifier(V)
    }
}

/// fields of a struct / struct variant: a map keyed by identifiers, or a sequence
struct FieldsV<'a> {
    fs: &'a Vec<J>,
}
impl<'a> FieldsV<'a> {
    fn collect_map<'de, A: MapAccess<'de>>(&self, mut a: A) -> Result<Vec<(String, Term)>, A::Error> {
        let mut got: Vec<(String, Term)> = Vec::new();
        while let Some(k) = a.next_key_seed(Ident)? {
            match self.fs.iter().find(|f| f[0].as_str() == Some(k.as_str())) {
                Some(f) => {
                    let v = a.next_value_seed(Seed(&f[1]))?;
                    got.push((k, v));
                }
                None => {
                    a.next_value::<de::IgnoredAny>()?;
                }
            }
        }
        let mut out = Vec::new();
        for f in self.fs {
            let name = f[0].as_str().unwrap();
            match got.iter().find(|(k, _)| k == name) {
                Some((_, v)) => out.push((name.to_string(), v.clone())),
                None => {
                    // derive: a missing Option field becomes None, anything else is an error
                    if f[1]["t"] == "opt" {
                        out.push((name.to_string(), Term::None));
                    } else {
                        return Err(de::Error::missing_field(leak(name)));
                    }
                }
            }
        }
        Ok(out)
    }
    fn collect_seq<'de, A: SeqAccess<'de>>(&self, mut a: A) -> Result<Vec<(String, Term)>, A::Error> {
        let mut out = Vec::new();
        for (i, f) in self.fs.iter().enumerate() {
            match a.next_element_seed(Seed(&f[1]))? {
                Some(x) => out.push((f[0].as_str().unwrap().to_string(), x)),
                None => return Err(de::Error::invalid_length(i, &"struct fields")),
            }
        }
        Ok(out)
    }
}

struct StructV<'a>(&'a J);
impl<'de, 'a> Visitor<'de> for StructV<'a> {
    type Value = Term;
    fn expecting(&self, f: &mut fmt::Formatter) -> fmt::Result {
        write!(f, "struct")
    }
    fn visit_map<A: MapAccess<'de>>(self, a: A) -> Result<Term, A::Error> {
        let fs = FieldsV { fs: self.0["fs"].as_array().unwrap() };
        Ok(Term::Struct(self.0["name"].as_str().unwrap().into(), fs.collect_map(a)?))
    }
    fn visit_seq<A: SeqAccess<'de>>(self, a: A) -> Result<Term, A::Error> {
        let fs = FieldsV { fs: self.0["fs"].as_array().unwrap() };
        Ok(Term::Struct(self.0["name"].as_str().unwrap().into(), fs.collect_seq(a)?))
    }
}

struct NewtypeV<'a>(&'a J);
impl<'de, 'a> Visitor<'de> for NewtypeV<'a> {
    type Value = Term;
    fn expecting(&self, f: &mut fmt::Formatter) -> fmt::Result {
        write!(f, "newtype struct")
    }
    fn visit_newtype_struct<D: Deserializer<'de>>(self, d: D) -> Result<Term, D::Error> {
        Ok(Term::Newtype(self.0["name"].as_str().unwrap().into(), Box::new(Seed(&self.0["a"]).deserialize(d)?)))
    }
    fn visit_seq<A: SeqAccess<'de>>(self, mut a: A) -> Result<Term, A::Error> {
        match a.next_element_seed(Seed(&self.0["a"]))? {
            Some(x) => Ok(Term::Newtype(self.0["name"].as_str().unwrap().into(), Box::new(x))),
            None => Err(de::Error::invalid_length(0, &self)),
        }
    }
}

struct EnumV<'a>(&'a J);
impl<'de, 'a> Visitor<'de> for EnumV<'a> {
    type Value = Term;
    fn expecting(&self, f: &mut fmt::Formatter) -> fmt::Result {
        write!(f, "enum {}", self.0["name"])
    }
    fn visit_enum<A: EnumAccess<'de>>(self, a: A) -> Result<Term, A::Error> {
        let (vname, va) = a.variant_seed(Ident)?;
        let vs = self.0["vs"].as_array().unwrap();
        let (idx, v) = match vs.iter().enumerate().find(|(i, v)| v["n"].as_str() == Some(vname.as_str()) || vname == format!("#{i}")) {
            Some(x) => x,
            None => return Err(de::Error::unknown_variant(&vname, &[])),
        };
        let name = self.0["name"].as_str().unwrap().to_string();
        let vn = v["n"].as_str().unwrap().to_string();
        let vk = v["k"].as_str().unwrap().to_string();
        let mk = |items: Vec<Term>, fields: Vec<(String, Term)>| Term::Variant { name: name.clone(), idx: idx as u32, vn: vn.clone(), vk: vk.clone(), items, fields };
        match vk.as_str() {
            "unit" => {
                va.unit_variant()?;
                Ok(mk(vec![], vec![]))
            }
            "newtype" => {
                let x = va.newtype_variant_seed(Seed(&v["a"]))?;
                Ok(mk(vec![x], vec![]))
            }
            "tuple" => {
                let tys = v["ts"].as_array().unwrap();
                match va.tuple_variant(tys.len(), SeqV { elem: None, elems: Some(tys), tuple: true })? {
                    Term::Tuple(xs) => Ok(mk(xs, vec![])),
                    _ => unreachable!(),
                }
            }
            _ => {
                struct SV<'b>(&'b Vec<J>);
                impl<'de, 'b> Visitor<'de> for SV<'b> {
                    type Value = Vec<(String, Term)>;
                    fn expecting(&self, f: &mut fmt::Formatter) -> fmt::Result {
                        write!(f, "struct variant")
                    }
                    fn visit_map<A: MapAccess<'de>>(self, a: A) -> Result<Self::Value, A::Error> {
                        FieldsV { fs: self.0 }.collect_map(a)
                    }
                    fn visit_seq<A: SeqAccess<'de>>(self, a: A) -> Result<Self::Value, A::Error> {
                        FieldsV { fs: self.0 }.collect_seq(a)
                    }
                }
                let fs = v["fs"].as_array().unwrap();
                let names: Vec<&'static str> = fs.iter().map(|f| leak(f[0].as_str().unwrap())).collect();
                let fields = va.struct_variant(Box::leak(names.into_boxed_slice()), SV(fs))?;
                Ok(mk(vec![], fields))
            }
        }
    }
}

impl<'de, 'a> DeserializeSeed<'de> for Seed<'a> {
    type Value = Term;
    fn deserialize<D: Deserializer<'de>>(self, d: D) -> Result<Term, D::Error> {
        let ty = self.0;
        let t = ty["t"].as_str().unwrap();
        match t {
            // primitives are read back through serde's OWN impls for the Rust type (what `T::deserialize` does for a user),
            // not through a visitor of this probe that might accept more
            "bool" => <bool as serde::Deserialize>::deserialize(d).map(Term::Bool),
            "i8" => <i8 as serde::Deserialize>::deserialize(d).map(|v| Term::Int("i8".into(), v.to_string())),
            "i16" => <i16 as serde::Deserialize>::deserialize(d).map(|v| Term::Int("i16".into(), v.to_string())),
            "i32" => <i32 as serde::Deserialize>::deserialize(d).map(|v| Term::Int("i32".into(), v.to_string())),
            "i64" => <i64 as serde::Deserialize>::deserialize(d).map(|v| Term::Int("i64".into(), v.to_string())),
            "i128" => <i128 as serde::Deserialize>::deserialize(d).map(|v| Term::Int("i128".into(), v.to_string())),
            "u8" => <u8 as serde::Deserialize>::deserialize(d).map(|v| Term::Int("u8".into(), v.to_string())),
            "u16" => <u16 as serde::Deserialize>::deserialize(d).map(|v| Term::Int("u16".into(), v.to_string())),
            "u32" => <u32 as serde::Deserialize>::deserialize(d).map(|v| Term::Int("u32".into(), v.to_string())),
            "u64" => <u64 as serde::Deserialize>::deserialize(d).map(|v| Term::Int("u64".into(), v.to_string())),
            "u128" => <u128 as serde::Deserialize>::deserialize(d).map(|v| Term::Int("u128".into(), v.to_string())),
            "f64" => <f64 as serde::Deserialize>::deserialize(d).map(Term::F64),
            "f32" => <f32 as serde::Deserialize>::deserialize(d).map(Term::F32),
            "char" => <char as serde::Deserialize>::deserialize(d).map(Term::Char),
            "str" => <String as serde::Deserialize>::deserialize(d).map(Term::Str),
            "unit" => d.deserialize_unit(Prim("unit")),
            "opt" => d.deserialize_option(OptV(ty)),
            "seq" => d.deserialize_seq(SeqV { elem: Some(&ty["a"]), elems: None, tuple: false }),
            "tuple" => {
                let tys = ty["ts"].as_array().unwrap();
                d.deserialize_tuple(tys.len(), SeqV { elem: None, elems: Some(tys), tuple: true })
            }
            "map" => d.deserialize_map(MapV(ty)),
            "struct" => {
                let names: Vec<&'static str> = ty["fs"].as_array().unwrap().iter().map(|f| leak(f[0].as_str().unwrap())).collect();
                d.deserialize_struct(leak(ty["name"].as_str().unwrap()), Box::leak(names.into_boxed_slice()), StructV(ty))
            }
            "newtype" => d.deserialize_newtype_struct(leak(ty["name"].as_str().unwrap()), NewtypeV(ty)),
            "enum" => {
                let names: Vec<&'static str> = ty["vs"].as_array().unwrap().iter().map(|v| leak(v["n"].as_str().unwrap())).collect();
                d.deserialize_enum(leak(ty["name"].as_str().unwrap()), Box::leak(names.into_boxed_slice()), EnumV(ty))
            }
            _ => panic!("bad type {t}"),
        }
    }
}

fn rt(ty: &J, term: &Term, value: &Value) -> (String, String) {
    let by_ref = match Seed(ty).deserialize(value) {
        Ok(t) => if &t == term { "ok".to_string() } else { format!("neq:{t:?}") },
        Err(e) => format!("err:{e}"),
    };
    let by_val = match Seed(ty).deserialize(value.clone()) {
        Ok(t) => if &t == term { "ok".to_string() } else { format!("neq:{t:?}") },
        Err(e) => format!("err:{e}"),
    };
    (by_ref, by_val)
}

fn main() {
    std::panic::set_hook(Box::new(|_| {}));
    let stdin = std::io::stdin();
    let out = std::io::stdout();
    let mut out = std::io::BufWriter::new(out.lock());
    for line in stdin.lock().lines() {
        let line = line.unwrap();
        if line.trim().is_empty() {
            continue;
        }
        let job: J = serde_json::from_str(&line).unwrap();
        let res = std::panic::catch_unwind(|| {
            let ty = &job["ty"];
            let term = term_of(&job["val"]);
            let mut r = json!({});
            match Value::try_from_serializable(&term) {
                Err(e) => {
                    r["ser_ok"] = json!(false);
                    r["ser_err"] = json!(format!("{e}"));
                }
                Ok(value) => {
                    r["ser_ok"] = json!(true);
                    let (a, b) = rt(ty, &term, &value);
                    r["rt_ref"] = json!(a);
                    r["rt_val"] = json!(b);
                    // one level down, inside a struct field
                    let wty = json!({"t": "struct", "name": "W", "fs": [["w", ty]]});
                    let wterm = Term::Struct("W".into(), vec![("w".into(), term.clone())]);
                    let wvalue = Value::try_from_serializable(&wterm).unwrap();
                    let (a, b) = rt(&wty, &wterm, &wvalue);
                    r["nested_ref"] = json!(a);
                    r["nested_val"] = json!(b);
                    // what a template prints
                    let tera = Tera::default();
                    let mut ctx = Context::new();
                    ctx.insert("v", &term);
                    r["render"] = match tera.render_str("{{ v }}", &ctx, false) {
                        Ok(s) => json!({"ok": true, "out": s}),
                        Err(e) => json!({"ok": false, "msg": format!("{e}").lines().next().unwrap_or("").to_string()}),
                    };
                    // keys of a map as the template sees them when it goes through the entries, and looks each one up again
                    if value.is_map() {
                        r["keys"] = match tera.render_str("{% for k, x in v %}{{ k }}\u{1f}{% if v[k] is defined %}Y{% else %}N{% endif %}\u{1e}{% endfor %}|{{ v | keys | length }}|{% for p in v | pairs %}{{ p[0] }}\u{1e}{% endfor %}", &ctx, false) {
                            Ok(s) => json!({"ok": true, "out": s}),
                            Err(e) => json!({"ok": false, "msg": format!("{e}").lines().next().unwrap_or("").to_string()}),
                        };
                    }
                    // re-serialising the Value gives the same Value
                    r["reser"] = json!(Value::try_from_serializable(&value).map(|v2| v2 == value).unwrap_or(false));
                    // Context construction paths agree (top-level structs only)
                    if let Term::Struct(_, fs) = &term {
                        let src: String = fs.iter().map(|(k, _)| format!("{{{{ {k} is defined }}}}:{{% if {k} is defined %}}{{{{ {k} is none }}}}:{{{{ {k} }}}}{{% endif %}}|")).collect();
                        let a = Context::from_serialize(&term).ok().map(|c| tera.render_str(&src, &c, false).map_err(|e| format!("{e}")));
                        let mut c2 = Context::new();
                        let mut c3 = Context::new();
                        for (k, v) in fs {
                            c2.insert(k.clone(), v);
                            c3.insert_value(k.clone(), Value::from_serializable(v));
                        }
                        let b = tera.render_str(&src, &c2, false).map_err(|e| format!("{e}"));
                        let c = tera.render_str(&src, &c3, false).map_err(|e| format!("{e}"));
                        r["ctx_equiv"] = json!(a.as_ref() == Some(&b) && b == c);
                        r["ctx_out"] = json!(format!("{a:?} / {b:?} / {c:?}"));
                    }
                }
            }
            r
        });
        let j = match res {
            Ok(mut j) => {
                j["id"] = job["id"].clone();
                j
            }
            Err(_) => json!({"id": job["id"], "panic": true}),
        };
        writeln!(out, "{}", j).unwrap();
    }
    out.flush().unwrap();
}
