//! Generic job runner binding the TLA+ specification to the real engine.
//!
//! Reads ndjson jobs (stdin or `--jobs FILE`), writes one ndjson result per job (stdout),
//! and — for jobs with `"trace": true` — appends the VM events of every render to
//! `--trace-out FILE`, delimited by `reset` / `end` lines.
//! Everything property-specific is *data* in the job; the runner knows no expected results.
use serde_json::{Value as J, json};
use std::cell::RefCell;
use std::io::{BufRead, Write};
use std::sync::Arc;
use tera::{Context, Delimiters, ErrorKind, Filter, Function, Kwargs, Map, State, Tera, Value};

mod valops;

thread_local! {
    static PROBE_LOG: RefCell<Vec<String>> = const { RefCell::new(Vec::new()) };
}

pub fn key_of(j: &J) -> tera::value::Key<'static> {
    use tera::value::Key;
    match j {
        J::String(s) => Key::from(s.clone()),
        J::Bool(b) => Key::Bool(*b),
        J::Number(n) => {
            if let Some(i) = n.as_i64() {
                Key::I64(i)
            } else {
                Key::U64(n.as_u64().unwrap())
            }
        }
        J::Object(o) => {
            if let Some(s) = o.get("$i128") {
                Key::I128(s.as_str().unwrap().parse().unwrap())
            } else if let Some(s) = o.get("$u128") {
                Key::U128(s.as_str().unwrap().parse().unwrap())
            } else if let Some(s) = o.get("$i64") {
                Key::I64(s.as_str().unwrap().parse().unwrap())
            } else if let Some(s) = o.get("$u64") {
                Key::U64(s.as_str().unwrap().parse().unwrap())
            } else if let Some(s) = o.get("$str") {
                // borrowed static key
                Key::Str(Box::leak(s.as_str().unwrap().to_string().into_boxed_str()))
            } else {
                panic!("bad key {j}")
            }
        }
        _ => panic!("bad key {j}"),
    }
}

/// Typed JSON -> Value
pub fn to_val(j: &J) -> Value {
    match j {
        J::Null => Value::none(),
        J::Bool(b) => Value::from(*b),
        J::Number(n) => {
            if let Some(i) = n.as_i64() {
                Value::from(i)
            } else if let Some(u) = n.as_u64() {
                Value::from(u)
            } else {
                Value::from(n.as_f64().unwrap())
            }
        }
        J::String(s) => Value::from(s.as_str()),
        J::Array(a) => Value::from(a.iter().map(to_val).collect::<Vec<_>>()),
        J::Object(o) => {
            if let Some(s) = o.get("$i128") {
                return Value::from(s.as_str().unwrap().parse::<i128>().unwrap());
            }
            if let Some(s) = o.get("$u128") {
                return Value::from(s.as_str().unwrap().parse::<u128>().unwrap());
            }
            if let Some(s) = o.get("$i64") {
                return Value::from(s.as_str().unwrap().parse::<i64>().unwrap());
            }
            if let Some(s) = o.get("$u64") {
                return Value::from(s.as_str().unwrap().parse::<u64>().unwrap());
            }
            if let Some(s) = o.get("$f64") {
                return Value::from(match s.as_str().unwrap() {
                    "nan" => f64::NAN,
                    "inf" => f64::INFINITY,
                    "-inf" => f64::NEG_INFINITY,
                    x => x.parse::<f64>().unwrap(),
                });
            }
            if let Some(s) = o.get("$f64bits") {
                return Value::from(f64::from_bits(s.as_str().unwrap().parse::<u64>().unwrap()));
            }
            if let Some(s) = o.get("$bytes") {
                return Value::bytes(
                    s.as_array()
                        .unwrap()
                        .iter()
                        .map(|x| x.as_u64().unwrap() as u8)
                        .collect::<Vec<u8>>(),
                );
            }
            if o.get("$undef").is_some() {
                return Value::undefined();
            }
            if let Some(s) = o.get("$safe") {
                return Value::safe_string(s.as_str().unwrap());
            }
            if let Some(s) = o.get("$cp") {
                // string given as code points
                let st: String = s
                    .as_array()
                    .unwrap()
                    .iter()
                    .map(|x| char::from_u32(x.as_u64().unwrap() as u32).unwrap())
                    .collect();
                return Value::from(st);
            }
            if let Some(s) = o.get("$map") {
                let mut m = Map::new();
                for kv in s.as_array().unwrap() {
                    m.insert(key_of(&kv[0]), to_val(&kv[1]));
                }
                return Value::from(m);
            }
            let mut m = Map::new();
            for (k, v) in o {
                m.insert(k.clone().into(), to_val(v));
            }
            Value::from(m)
        }
    }
}

fn ctx_of(j: Option<&J>) -> Context {
    let mut ctx = Context::new();
    if let Some(c) = j {
        for (k, v) in c.as_object().unwrap() {
            ctx.insert_value(k.clone(), to_val(v));
        }
    }
    ctx
}

// ---------- probe callables registered on demand ----------
struct Wrap(bool);
impl Filter<&Value, String> for Wrap {
    fn call(&self, value: &Value, _k: Kwargs, _s: &State) -> String {
        format!("<{value}>")
    }
    fn is_safe(&self) -> bool {
        self.0
    }
}
struct Mk(bool);
impl Function<String> for Mk {
    fn call(&self, _k: Kwargs, _s: &State) -> String {
        "<i>&</i>".to_string()
    }
    fn is_safe(&self) -> bool {
        self.0
    }
}

fn probe_fn(kwargs: Kwargs, _s: &State) -> tera::TeraResult<Value> {
    let k: String = kwargs.must_get("k")?;
    PROBE_LOG.with(|l| l.borrow_mut().push(k));
    Ok(kwargs.get::<Value>("v")?.unwrap_or_else(Value::none))
}

fn kind_name(k: &ErrorKind) -> &'static str {
    match k {
        ErrorKind::Msg(_) => "Msg",
        ErrorKind::SyntaxError(_) => "SyntaxError",
        ErrorKind::RenderingError(_) => "RenderingError",
        ErrorKind::CircularExtend { .. } => "CircularExtend",
        ErrorKind::CircularInclude { .. } => "CircularInclude",
        ErrorKind::MissingParent { .. } => "MissingParent",
        ErrorKind::TemplateNotFound(_) => "TemplateNotFound",
        ErrorKind::ComponentNotFound(_) => "ComponentNotFound",
        ErrorKind::InvalidArgument { .. } => "InvalidArgument",
        ErrorKind::MissingArgument { .. } => "MissingArgument",
        ErrorKind::OutOfRangeArgument { .. } => "OutOfRangeArgument",
        ErrorKind::Io(_) => "Io",
        ErrorKind::Utf8Conversion => "Utf8Conversion",
        _ => "Other",
    }
}

/// `v | viacall(name="upper", args={...})`: goes through `State::call_filter`
fn viacall(value: &Value, kwargs: Kwargs, state: &State) -> tera::TeraResult<Value> {
    let name: String = kwargs.must_get("name")?;
    let args: Map = kwargs.get::<Map>("args")?.unwrap_or_default();
    state.call_filter(&name, value, Kwargs::new(Arc::new(args)))
}

/// `v | errkind(name="truncate", args={...})`: the ErrorKind variant of the inner call ("Ok" if fine)
fn errkind(value: &Value, kwargs: Kwargs, state: &State) -> tera::TeraResult<Value> {
    let name: String = kwargs.must_get("name")?;
    let args: Map = kwargs.get::<Map>("args")?.unwrap_or_default();
    Ok(Value::from(
        match state.call_filter(&name, value, Kwargs::new(Arc::new(args))) {
            Ok(_) => "Ok",
            Err(e) => kind_name(e.kind()),
        },
    ))
}

static DELIMS_REJECTED: std::sync::atomic::AtomicBool = std::sync::atomic::AtomicBool::new(false);

fn build_tera(cfg: Option<&J>) -> Result<Tera, String> {
    DELIMS_REJECTED.store(false, std::sync::atomic::Ordering::SeqCst);
    let mut t = Tera::default();
    let empty = json!({});
    let cfg = cfg.unwrap_or(&empty);
    if cfg.get("contrib").and_then(|x| x.as_bool()).unwrap_or(false) {
        t.register_filter("b64_encode", tera_contrib::base64::b64_encode);
        t.register_filter("b64_decode", tera_contrib::base64::b64_decode);
        t.register_filter("urlencode", tera_contrib::urlencode::urlencode);
        t.register_filter("urlencode_strict", tera_contrib::urlencode::urlencode_strict);
        t.register_filter("json_encode", tera_contrib::json::json_encode);
        t.register_filter("slug", tera_contrib::slug::slug);
    }
    if cfg.get("probes").and_then(|x| x.as_bool()).unwrap_or(false) {
        t.register_filter("wrap", Wrap(false));
        t.register_filter("wrap_safe", Wrap(true));
        t.register_function("mk", Mk(false));
        t.register_function("mk_safe", Mk(true));
        t.register_function("p", probe_fn);
        t.register_filter("viacall", viacall);
        t.register_filter("errkind", errkind);
        t.register_filter("read_ctx", |x: &str, _: Kwargs, state: &State| -> tera::TeraResult<Value> {
            if let Some((start, rest)) = x.split_once('.') {
                let base: Value = state.get(start)?.unwrap_or(Value::undefined());
                Ok(base.get_from_path(rest).cloned().unwrap_or(Value::undefined()))
            } else {
                Ok(state.get::<Value>(x)?.unwrap_or(Value::undefined()))
            }
        });
    }
    if let Some(d) = cfg.get("delims") {
        let d: Vec<String> = d
            .as_array()
            .unwrap()
            .iter()
            .map(|x| x.as_str().unwrap().to_string())
            .collect();
        let leak = |s: &String| -> &'static str { Box::leak(s.clone().into_boxed_str()) };
        t.set_delimiters(Delimiters {
            block_start: leak(&d[0]).into(),
            block_end: leak(&d[1]).into(),
            variable_start: leak(&d[2]).into(),
            variable_end: leak(&d[3]).into(),
            comment_start: leak(&d[4]).into(),
            comment_end: leak(&d[5]).into(),
        })
        .map_err(|e| format!("{e}"))
        .or_else(|e| {
            // "delims_soft": a refused call is an ordinary event; the instance goes on being used (with what it had before)
            if cfg.get("delims_soft").and_then(|x| x.as_bool()).unwrap_or(false) {
                DELIMS_REJECTED.store(true, std::sync::atomic::Ordering::SeqCst);
                Ok(())
            } else {
                Err(e)
            }
        })?;
    }
    if let Some(p) = cfg.get("prefixes") {
        t.set_fallback_prefixes(
            p.as_array()
                .unwrap()
                .iter()
                .map(|x| x.as_str().unwrap().to_string())
                .collect::<Vec<_>>(),
        )
        .map_err(|e| format!("{e}"))?;
    }
    if let Some(a) = cfg.get("autoescape") {
        t.autoescape_on(
            a.as_array()
                .unwrap()
                .iter()
                .map(|x| x.as_str().unwrap().to_string())
                .collect::<Vec<_>>(),
        );
    }
    let esc = cfg.get("escape").and_then(|x| x.as_str());
    if esc == Some("brackets") || esc == Some("brackets-then-reset") {
        t.set_escape_fn(|input: &str, out: &mut dyn Write| {
            for c in input.chars() {
                match c {
                    '<' => out.write_all(b"[lt]")?,
                    '&' => out.write_all(b"[amp]")?,
                    _ => out.write_all(c.to_string().as_bytes())?,
                }
            }
            Ok(())
        });
        if esc == Some("brackets-then-reset") {
            t.reset_escape_fn();
        }
    }
    if cfg.get("register_from").and_then(|x| x.as_bool()).unwrap_or(false) {
        // another instance whose callables carry the names of built-ins (and one new name each): register_from imports only
        // what this instance does not have yet
        let mut other = Tera::default();
        other.register_filter("upper", |_: &str, _: Kwargs, _: &State| -> tera::TeraResult<Value> { Ok(Value::from("OTHER")) });
        other.register_filter("length", |_: &Value, _: Kwargs, _: &State| -> tera::TeraResult<Value> { Ok(Value::from(-1)) });
        other.register_filter("imported_f", |_: &Value, _: Kwargs, _: &State| -> tera::TeraResult<Value> { Ok(Value::from("IF")) });
        other.register_test("integer", |_: &Value, _: Kwargs, _: &State| -> tera::TeraResult<bool> { Ok(true) });
        other.register_test("odd", |_: &Value, _: Kwargs, _: &State| -> tera::TeraResult<bool> { Ok(true) });
        other.register_test("string", |_: &Value, _: Kwargs, _: &State| -> tera::TeraResult<bool> { Ok(false) });
        other.register_test("upper", |_: &Value, _: Kwargs, _: &State| -> tera::TeraResult<bool> { Ok(true) });
        other.register_test("imported_t", |_: &Value, _: Kwargs, _: &State| -> tera::TeraResult<bool> { Ok(true) });
        other.register_function("range", |_: Kwargs, _: &State| -> tera::TeraResult<Value> { Ok(Value::from("OTHER")) });
        other.register_function("imported_fn", |_: Kwargs, _: &State| -> tera::TeraResult<Value> { Ok(Value::from("IFN")) });
        t.register_from(&other);
    }
    if let Some(g) = cfg.get("gctx") {
        for (k, v) in g.as_object().unwrap() {
            t.global_context().insert_value(k.clone(), to_val(v));
        }
    }
    Ok(t)
}

fn span_json(s: &tera::Span) -> J {
    json!([s.start_line, s.start_col, s.end_line, s.end_col, s.range.start, s.range.end])
}

fn err_json(e: &tera::Error) -> J {
    let disp = std::panic::catch_unwind(std::panic::AssertUnwindSafe(|| format!("{e}")));
    let (disp, disp_ok) = match disp {
        Ok(d) => (d, true),
        Err(_) => (String::new(), false),
    };
    let kind = kind_name(e.kind());
    match e.kind() {
        ErrorKind::SyntaxError(r) | ErrorKind::RenderingError(r) => json!({
            "ok": false, "kind": kind, "file": r.filename(), "msg": r.message(),
            "span": span_json(r.span()), "disp": disp, "disp_ok": disp_ok,
            "notes": r.verif_notes().iter().map(|(l, f, s)| json!({"label": l, "file": f, "span": span_json(s)})).collect::<Vec<_>>()
        }),
        ErrorKind::Io(k) => {
            json!({"ok": false, "kind": kind, "io": format!("{k:?}"), "disp": disp, "disp_ok": disp_ok})
        }
        _ => json!({"ok": false, "kind": kind, "disp": disp, "disp_ok": disp_ok}),
    }
}

/// A writer with a failure point: fails the k-th write call (1-based) or once `budget` bytes
/// were accepted (short write first, then error)
struct FaultyWriter {
    accepted: Vec<u8>,
    sizes: Vec<usize>,
    calls: usize,
    fail_call: Option<usize>,
    budget: Option<usize>,
    /// a writer that never fails but accepts at most `chunk` bytes per call (a legal short write)
    chunk: Option<usize>,
    failed: bool,
}
impl Write for FaultyWriter {
    fn write(&mut self, buf: &[u8]) -> std::io::Result<usize> {
        self.calls += 1;
        self.sizes.push(buf.len());
        if let Some(k) = self.fail_call {
            if self.calls >= k {
                self.failed = true;
                return Err(std::io::Error::new(std::io::ErrorKind::Other, "planned failure"));
            }
        }
        if let Some(b) = self.budget {
            let room = b.saturating_sub(self.accepted.len());
            if room == 0 && !buf.is_empty() {
                self.failed = true;
                return Err(std::io::Error::new(std::io::ErrorKind::WriteZero, "planned failure"));
            }
            let n = room.min(buf.len());
            self.accepted.extend_from_slice(&buf[..n]);
            return Ok(n);
        }
        if let Some(c) = self.chunk {
            let n = c.max(1).min(buf.len());
            self.accepted.extend_from_slice(&buf[..n]);
            return Ok(n);
        }
        self.accepted.extend_from_slice(buf);
        Ok(buf.len())
    }
    fn flush(&mut self) -> std::io::Result<()> {
        Ok(())
    }
}

struct TraceOut {
    file: Option<std::io::BufWriter<std::fs::File>>,
}

fn bytes_json(b: &[u8]) -> J {
    match std::str::from_utf8(b) {
        Ok(s) => json!(s),
        Err(_) => json!({"$invalid_utf8": b.to_vec()}),
    }
}

#[allow(clippy::too_many_arguments)]
fn run_step(
    t: &mut Tera,
    step: &J,
    job: &J,
    jobid: &J,
    idx: usize,
    trace_on: bool,
    tout: &mut TraceOut,
) -> J {
    let op = step["op"].as_str().unwrap_or("");
    let ctx = ctx_of(step.get("ctx").or_else(|| job.get("ctx")));
    let is_render = op.starts_with("render");
    if is_render && trace_on {
        tera::verif::trace_start();
    }
    PROBE_LOG.with(|l| l.borrow_mut().clear());
    let mut res = match op {
        "add" => {
            let tpls: Vec<(String, String)> = step["tpls"]
                .as_array()
                .unwrap()
                .iter()
                .map(|p| (p[0].as_str().unwrap().to_string(), p[1].as_str().unwrap().to_string()))
                .collect();
            tera::verif::depth_reset();
            // "via": "files" -- the same batch through add_template_files(path, Some(name)): every source is written to a
            // file whose extension says nothing about the template name; "via": "single" -- one add_raw_template per entry
            // is NOT the same operation (no batch), so it is not offered here
            let via_files = step.get("via").and_then(|x| x.as_str()) == Some("files");
            let r = if via_files {
                static N: std::sync::atomic::AtomicU64 = std::sync::atomic::AtomicU64::new(0);
                let dir = std::env::temp_dir().join(format!(
                    "tera-verif-{}-{}",
                    std::process::id(),
                    N.fetch_add(1, std::sync::atomic::Ordering::SeqCst)
                ));
                std::fs::create_dir_all(&dir).unwrap();
                let mut files = Vec::new();
                for (i, (name, src)) in tpls.iter().enumerate() {
                    let p = dir.join(format!("f{i}.tpl"));
                    std::fs::write(&p, src).unwrap();
                    files.push((p, Some(name.clone())));
                }
                let r = t.add_template_files(files);
                let _ = std::fs::remove_dir_all(&dir);
                r
            } else {
                t.add_raw_templates(tpls)
            };
            match r {
                Ok(()) => json!({"ok": true, "gauge": tera::verif::depth_max()}),
                Err(e) => {
                    let mut j = err_json(&e);
                    j["gauge"] = json!(tera::verif::depth_max());
                    j
                }
            }
        }
        "autoescape" => {
            t.autoescape_on(
                step["suffixes"]
                    .as_array()
                    .unwrap()
                    .iter()
                    .map(|x| x.as_str().unwrap().to_string())
                    .collect::<Vec<_>>(),
            );
            json!({"ok": true})
        }
        "prefixes" => {
            // set_fallback_prefixes AFTER templates were added: whatever the call answers, the instance must stay a valid one
            match t.set_fallback_prefixes(
                step["list"].as_array().unwrap().iter().map(|x| x.as_str().unwrap().to_string()).collect::<Vec<_>>(),
            ) {
                Ok(()) => json!({"ok": true}),
                Err(e) => err_json(&e),
            }
        }
        "names" => {
            let mut n: Vec<String> = t.get_template_names().map(|s| s.to_string()).collect();
            n.sort();
            json!({"ok": true, "names": n})
        }
        "state" => json!({"ok": true, "state": serde_json::from_str::<J>(&t.verif_state()).unwrap()}),
        "listing" => {
            let l: Vec<J> = t
                .verif_listing()
                .iter()
                .map(|s| serde_json::from_str::<J>(s).unwrap())
                .collect();
            json!({"ok": true, "listing": l})
        }
        "listing_str" => match t.verif_listing_str(step["src"].as_str().unwrap()) {
            Ok(l) => {
                let l: Vec<J> = l.iter().map(|s| serde_json::from_str::<J>(s).unwrap()).collect();
                json!({"ok": true, "listing": l})
            }
            Err(e) => err_json(&e),
        },
        "compdef" => match t.get_component_definition(step["name"].as_str().unwrap()) {
            Some(info) => json!({"ok": true, "found": true, "name": info.name(),
                "args": info.args().iter().map(|a| json!({"name": a.name(), "required": a.is_required(),
                    "default": a.default().map(|v| format!("{v}")),
                    "type": a.arg_type().map(|t| t.as_str())})).collect::<Vec<_>>(),
                "rest": info.rest_param()}),
            None => json!({"ok": true, "found": false}),
        },
        "render" | "render_block" | "render_str" | "render_component" => {
            tera::verif::depth_reset();
            let to = step.get("to");
            let mut w = FaultyWriter {
                accepted: Vec::new(),
                sizes: Vec::new(),
                calls: 0,
                fail_call: to.and_then(|x| x.get("fail_call")).and_then(|x| x.as_u64()).map(|x| x as usize),
                budget: to.and_then(|x| x.get("budget")).and_then(|x| x.as_u64()).map(|x| x as usize),
                chunk: to.and_then(|x| x.get("chunk")).and_then(|x| x.as_u64()).map(|x| x as usize),
                failed: false,
            };
            let use_to = to.is_some();
            let auto = step.get("auto").and_then(|x| x.as_bool()).unwrap_or(false);
            let r: Result<Option<String>, tera::Error> = match op {
                "render" => {
                    let n = step["name"].as_str().unwrap();
                    if use_to { t.render_to(n, &ctx, &mut w).map(|_| None) } else { t.render(n, &ctx).map(Some) }
                }
                "render_block" => {
                    let n = step["name"].as_str().unwrap();
                    let b = step["block"].as_str().unwrap();
                    if use_to { t.render_block_to(n, b, &ctx, &mut w).map(|_| None) } else { t.render_block(n, b, &ctx).map(Some) }
                }
                "render_str" => {
                    let s = step["src"].as_str().unwrap();
                    if step.get("one_off").and_then(|x| x.as_bool()).unwrap_or(false) {
                        Tera::one_off(s, &ctx, auto).map(Some)
                    } else if use_to {
                        t.render_str_to(s, &ctx, auto, &mut w).map(|_| None)
                    } else {
                        t.render_str(s, &ctx, auto).map(Some)
                    }
                }
                _ => {
                    let n = step["name"].as_str().unwrap();
                    let body = step.get("body").and_then(|x| x.as_str());
                    if use_to { t.render_component_to(n, &ctx, body, auto, &mut w).map(|_| None) } else { t.render_component(n, &ctx, body, auto).map(Some) }
                }
            };
            let mut j = match r {
                Ok(Some(s)) => json!({"ok": true, "out": s}),
                Ok(None) => json!({"ok": true}),
                Err(e) => err_json(&e),
            };
            if use_to {
                j["accepted"] = bytes_json(&w.accepted);
                j["calls"] = json!(w.calls);
                j["sizes"] = json!(w.sizes);
                j["wfailed"] = json!(w.failed);
            }
            j["gauge"] = json!(tera::verif::depth_max());
            j
        }
        "delims_state" => json!({"ok": true, "rejected": DELIMS_REJECTED.load(std::sync::atomic::Ordering::SeqCst)}),
        "valops" => valops::run(step),
        "threads" => {
            // renders from several threads sharing one &Tera; only compiles if the types are Send + Sync
            fn assert_send_sync<T: Send + Sync>() {}
            assert_send_sync::<Tera>();
            assert_send_sync::<Context>();
            assert_send_sync::<Value>();
            assert_send_sync::<tera::Error>();
            let name = step["name"].as_str().unwrap().to_string();
            let n = step["n"].as_u64().unwrap_or(8) as usize;
            let reps = step["reps"].as_u64().unwrap_or(20) as usize;
            let seq: Vec<J> = (0..2)
                .map(|_| match t.render(&name, &ctx) {
                    Ok(s) => json!({"ok": true, "out": s}),
                    Err(e) => json!({"ok": false, "kind": kind_name(e.kind())}),
                })
                .collect();
            let tref: &Tera = &*t;
            let cref = &ctx;
            let mut all: Vec<J> = Vec::new();
            std::thread::scope(|sc| {
                let hs: Vec<_> = (0..n)
                    .map(|_| {
                        let name = name.clone();
                        sc.spawn(move || {
                            let mut outs = Vec::new();
                            for _ in 0..reps {
                                outs.push(match tref.render(&name, cref) {
                                    Ok(s) => json!({"ok": true, "out": s}),
                                    Err(e) => json!({"ok": false, "kind": kind_name(e.kind())}),
                                });
                            }
                            outs
                        })
                    })
                    .collect();
                for h in hs {
                    match h.join() {
                        Ok(o) => all.extend(o),
                        Err(_) => all.push(json!({"panic": true})),
                    }
                }
            });
            let mut distinct: Vec<J> = Vec::new();
            for o in all.iter() {
                if !distinct.contains(o) {
                    distinct.push(o.clone());
                }
            }
            json!({"ok": true, "sequential": seq, "distinct": distinct, "renders": all.len()})
        }
        _ => json!({"ok": false, "kind": "BadStep"}),
    };
    let log = PROBE_LOG.with(|l| l.borrow().clone());
    if !log.is_empty() {
        res["log"] = json!(log);
    }
    if is_render && trace_on {
        let ev = tera::verif::trace_take();
        if let Some(f) = tout.file.as_mut() {
            let ae = match step.get("expect_ae").and_then(|x| x.as_bool()) {
                Some(true) => "\"true\"",
                Some(false) => "\"false\"",
                None => "\"any\"",
            };
            writeln!(
                f,
                "{{\"e\":\"reset\",\"job\":{},\"step\":{},\"mode\":\"{}\",\"xae\":{}}}",
                jobid, idx, op, ae
            )
            .unwrap();
            for e in &ev {
                writeln!(f, "{e}").unwrap();
            }
            writeln!(
                f,
                "{{\"e\":\"end\",\"ok\":{}}}",
                res.get("ok").and_then(|x| x.as_bool()).unwrap_or(false)
            )
            .unwrap();
        }
        res["events"] = json!(ev.len());
    }
    res
}

static STEP_STARTED: std::sync::atomic::AtomicU64 = std::sync::atomic::AtomicU64::new(0);

fn now_ms() -> u64 {
    std::time::SystemTime::now().duration_since(std::time::UNIX_EPOCH).map(|d| d.as_millis() as u64).unwrap_or(0)
}

fn main() {
    let args: Vec<String> = std::env::args().collect();
    let mut jobs_path: Option<String> = None;
    let mut trace_path: Option<String> = None;
    let mut i = 1;
    while i < args.len() {
        match args[i].as_str() {
            "--jobs" => {
                jobs_path = Some(args[i + 1].clone());
                i += 1;
            }
            "--trace-out" => {
                trace_path = Some(args[i + 1].clone());
                i += 1;
            }
            _ => {}
        }
        i += 1;
    }
    std::panic::set_hook(Box::new(|_| {}));
    // watchdog: a step of the code under test that does not come back (a hang is a verdict, like an abort) kills the
    // process, so that the batch driver can attribute it to the job in progress and go on
    let limit_s: u64 = std::env::var("VERIF_STEP_LIMIT_S").ok().and_then(|x| x.parse().ok()).unwrap_or(120);
    std::thread::spawn(move || loop {
        std::thread::sleep(std::time::Duration::from_millis(500));
        let t0 = STEP_STARTED.load(std::sync::atomic::Ordering::SeqCst);
        if t0 != 0 && now_ms().saturating_sub(t0) > limit_s * 1000 {
            eprintln!("watchdog: a step ran for more than {limit_s} s");
            std::process::abort();
        }
    });
    let mut tout = TraceOut {
        file: trace_path.map(|p| std::io::BufWriter::new(std::fs::File::create(p).unwrap())),
    };
    let input: Box<dyn BufRead> = match jobs_path {
        Some(p) => Box::new(std::io::BufReader::new(std::fs::File::open(p).unwrap())),
        None => Box::new(std::io::BufReader::new(std::io::stdin())),
    };
    let out = std::io::stdout();
    let mut out = std::io::BufWriter::new(out.lock());
    for line in input.lines() {
        let line = line.unwrap();
        if line.trim().is_empty() {
            continue;
        }
        let job: J = serde_json::from_str(&line).unwrap();
        let id = job.get("id").cloned().unwrap_or(J::Null);
        let trace_on = job.get("trace").and_then(|x| x.as_bool()).unwrap_or(false);
        let optimize = job
            .get("cfg")
            .and_then(|c| c.get("optimize"))
            .and_then(|x| x.as_bool())
            .unwrap_or(true);
        tera::verif::set_optimize(optimize);
        // announce the job so that an abort can be attributed
        if job.get("may_abort").is_some() {
            writeln!(out, "{}", json!({"start": id})).unwrap();
            out.flush().unwrap();
        }
        let mut results = Vec::new();
        match build_tera(job.get("cfg")) {
            Err(e) => results.push(json!({"ok": false, "kind": "Config", "disp": e})),
            Ok(mut t) => {
                if let Some(steps) = job.get("steps").and_then(|s| s.as_array()) {
                    for (k, step) in steps.iter().enumerate() {
                        STEP_STARTED.store(now_ms(), std::sync::atomic::Ordering::SeqCst);
                        let r = std::panic::catch_unwind(std::panic::AssertUnwindSafe(|| {
                            run_step(&mut t, step, &job, &id, k, trace_on, &mut tout)
                        }));
                        match r {
                            Ok(j) => results.push(j),
                            Err(p) => {
                                let _ = tera::verif::trace_take();
                                let msg = p
                                    .downcast_ref::<String>()
                                    .cloned()
                                    .or_else(|| p.downcast_ref::<&str>().map(|s| s.to_string()))
                                    .unwrap_or_default();
                                results.push(json!({"panic": true, "msg": msg}));
                            }
                        }
                    }
                }
            }
        }
        STEP_STARTED.store(0, std::sync::atomic::Ordering::SeqCst);
        tera::verif::set_optimize(true);
        writeln!(out, "{}", json!({"id": id, "r": results})).unwrap();
        // flushed per job so that a crash (abort, stack overflow) can be attributed to the job in progress
        out.flush().unwrap();
    }
    out.flush().unwrap();
    if let Some(f) = tout.file.as_mut() {
        f.flush().unwrap();
    }
}
