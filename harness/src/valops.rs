//! Direct observations of the value algebra through the public trait impls (C15).
use serde_json::{Value as J, json};
use std::cmp::Ordering;

fn ord(o: Ordering) -> i64 {
    match o {
        Ordering::Less => -1,
        Ordering::Equal => 0,
        Ordering::Greater => 1,
    }
}

pub fn run(step: &J) -> J {
    let vals: Vec<tera::Value> = step["vals"].as_array().unwrap().iter().map(crate::to_val).collect();
    let n = vals.len();
    let mut eq = vec![vec![false; n]; n];
    let mut pc = vec![vec![0i64; n]; n];
    let mut tc = vec![vec![0i64; n]; n];
    for i in 0..n {
        for j in 0..n {
            eq[i][j] = vals[i] == vals[j];
            pc[i][j] = match vals[i].partial_cmp(&vals[j]) {
                Some(o) => ord(o),
                None => 2,
            };
            tc[i][j] = ord(vals[i].cmp(&vals[j]));
        }
    }
    json!({"ok": true, "eq": eq, "pcmp": pc, "cmp": tc})
}
