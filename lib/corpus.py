"""Template corpora used by several checks.

snapshot_jobs(): the repository's own snapshot-suite inputs (rendering_inputs/success and errors)
with the suite's context — executions the suite already runs but under-asserts."""
import os, glob, json

SNAP = (os.environ.get("VERIF_REPO") or os.environ.get("VP_RUN_REPO") or "/repo") + "/tera/src/snapshot_tests/rendering_inputs"


def snapshot_context():
    parent = {"label": "Parent", "parent": None, "numbers": [1, 2, 3]}
    child = {"label": "Child", "parent": parent, "numbers": [1, 2, 3]}
    review = {"title": "My review", "paragraphs": ["A", "B", "C"]}
    years = [2015, 2015, 2016, 2017, 2018, None, 2018]
    return {
        "name": "Bob",
        "description": "<p>I should be escaped by default</p>",
        "some_html": "<p>Some HTML chars & more</p>",
        "age": 18, "some_bool": True, "one": 1,
        "product": {"name": "Moto G"},
        "vectors": [[0, 3, 6], [1, 4, 7]],
        "numbers": [1, 2, 3], "empty": [],
        "objects": [child],
        "data": {"names": ["Tchoupi", "Pilou", "Fanny"], "weights": [{"$f64": "50.6"}, {"$f64": "70.1"}]},
        "reviews": [review, review],
        "to": "&", "malicious": "<html>",
        "year_data": [{"id": i + 1, "year": y} for i, y in enumerate(years)],
        "bytes": {"$bytes": list(b"hello")},
    }


def split_multi(body):
    body = body.replace("\r\n", "\n")
    out = []
    for part in body.split("$$ ")[1:]:
        name, _, rest = part.partition("\n")
        out.append([name, rest.strip()])
    return out


def snapshot_jobs(trace=True, include_errors=True, optimize=True):
    """One job per snapshot input: add, render the entry template, render every block of it."""
    jobs = []
    ctx = snapshot_context()
    def mk(name, tpls, entry, autoescape, expect_ok):
        steps = [{"op": "add", "tpls": tpls}, {"op": "render", "name": entry}, {"op": "state"}]
        return {"src": name, "trace": trace, "ctx": ctx, "expect_ok": expect_ok,
                "cfg": {"probes": True, "autoescape": autoescape, "optimize": optimize}, "steps": steps,
                "tpls": tpls, "entry": entry}
    for sub, ok in (("success", True), ("errors", False)):
        if not ok and not include_errors:
            continue
        base = os.path.join(SNAP, sub)
        for path in sorted(glob.glob(os.path.join(base, "*.txt*"))):
            src = open(path, encoding="utf-8").read().replace("\r\n", "\n")
            n = os.path.basename(path)
            jobs.append(mk(sub + "/" + n, [[n, src]], n, [".txt"] if ok else [".html", ".htm", ".xml"], ok))
        for d in ("components", "inheritance", "include"):
            for path in sorted(glob.glob(os.path.join(base, d, "*.txt"))):
                tpls = split_multi(open(path, encoding="utf-8").read())
                if not tpls:
                    continue
                jobs.append(mk("%s/%s/%s" % (sub, d, os.path.basename(path)), tpls, tpls[-1][0], [".html"], ok))
    return jobs


def listing_jobs(jobs, optimize):
    """For each corpus job, a job that only registers the templates and dumps the listing."""
    out = []
    for j in jobs:
        cfg = dict(j.get("cfg", {}))
        cfg["optimize"] = optimize
        out.append({"cfg": cfg, "steps": [{"op": "add", "tpls": j["tpls"]}, {"op": "listing"}]})
    return out
