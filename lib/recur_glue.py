"""Trusted glue for MC_Recur.tla: prints a call graph (templates A, B; component c defined in A, d in B; one
operation per body) as template sources."""


def op(o):
    return "" if o == "none" else ("{% include '" + o + "' %}" if o in ("A", "B") else "{{<" + o + "/>}}")


def templates(g):
    return [["A", "A(" + op(g["A"]) + "){% component c() %}[c" + op(g["c"]) + "]{% endcomponent c %}"],
            ["B", "B(" + op(g["B"]) + "){% component d() %}[d" + op(g["d"]) + "]{% endcomponent d %}"]]
