"""Trusted glue for Registry.tla: prints a template descriptor as template text. No expected results here."""


def src(name, d, compname="c1"):
    if not d["syn"]:
        return "{% if %}"
    out = []
    inc = "{% include '" + d["inc"] + "' %}" if d["inc"] else ""
    if d["ext"]:
        out.append("{% extends '" + d["ext"] + "' %}")
    else:
        out.append(("M" if d.get("v2") else "L") + name + ";")
    if d["unk"]:
        out.append("{{ 1 | nofilter }}")
    if d["inc"] and d["incpos"] == "body":
        out.append(inc)

    def block(blk):
        s = "{% block " + blk + " %}" + blk + name + ("[" if d.get("v2") else "(")
        after = blk == "a" and d.get("sa")
        # (in every other template the block first calls ANOTHER function: which call is super() must not depend on its position)
        pre = "{% set r_ = range(end=1) %}" if name[-1:] in ("B", "D") else ""
        deep = blk == "b" and d.get("deep")
        if d[blk] == "super" and not after and not deep:
            s += pre + "{{ super() }}"
        if deep:                      # a third level of nesting, and super() only after it
            s += "{% block c %}c" + name + ("[" if d.get("v2") else "(") + "){% endblock %}" + pre + "{{ super() }}"
        if blk == "a" and d["nest"] and d["b"] != "none":
            inner = block("b")
            s += ("{% filter safe %}" + inner + "{% endfilter %}") if d["cap"] else inner
            if d.get("sib"):          # a second new block next to the nested one
                s += "{% block c %}c" + name + ("[" if d.get("v2") else "(") + "){% endblock %}"
        if d[blk] == "super" and after:
            s += pre + "{{ super() }}"
        if blk == "a" and d["inc"] and d["incpos"] == "block":
            s += inc
        return s + "){% endblock %}"

    if d["a"] != "none":
        out.append(block("a"))
    if d["b"] != "none" and not (d["nest"] and d["a"] != "none"):
        out.append(block("b"))
    if d["z"]:
        out.append("{% block z %}z" + name + "(){% endblock %}")
    if d["comp"]:
        out.append("{% component " + compname + "() %}C" + name + ("'" if d.get("v2") else "") + "[" + (inc if d["incpos"] == "comp" else "") + "]{% endcomponent " + compname + " %}")
    if d["usec"]:
        out.append("{{<" + compname + "/>}}")
    return "".join(out)
