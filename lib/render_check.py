"""Run one theme of MC_Render: TLC generates every program (<= MaxTok tokens) with the reference result of
Render.tla under each environment; each is printed as template text, registered and rendered through the
engine (traced), and compared."""
import json, os
import vp, render_glue as G


def run_theme(C, theme, maxtok, traced=True, workers=4, simulate=None, depth=None, tag=None, also_str=False, also_api=False):
    tag = tag or ("render-%s-%d" % (theme, maxtok))
    cfgname = "MC_Render_%s_run" % theme
    with open(os.path.join(vp.SPEC, cfgname + ".cfg"), "w") as f:
        f.write(open(os.path.join(vp.SPEC, "MC_Render.cfg")).read().replace("MaxTok = 3", "MaxTok = %d" % maxtok).replace('Theme = "flow"', 'Theme = "%s"' % theme))
    r = vp.tlc("MC_Render", cfgname, workers=workers, timeout=3000, name=tag, xmx="16g", simulate=simulate, depth=depth)
    C.add_tlc(r, "MC_Render theme=%s MaxTok=%d%s" % (theme, maxtok, " (simulation)" if simulate else ""))
    envd = r.tags["ENV"][0]
    envs, lib, texts = envd["envs"], envd["lib"], envd["texts"]
    vecs = r.tags.get("VEC", [])
    if simulate:
        seen, uniq = set(), []
        for v in vecs:
            k = json.dumps(v["p"], sort_keys=True)
            if k not in seen:
                seen.add(k)
                uniq.append(v)
        vecs = uniq
    jobs, meta, api_jobs = [], [], []
    for vi, v in enumerate(vecs):
        for ei, env in enumerate(envs):
            suffix = ".html" if env["ae"] else ".txt"
            src = G.source(v["p"], texts, suffix)
            tpls = [["t" + suffix, src]] + [[n + suffix, G.source(p, texts, suffix)] for n, p in sorted(lib.items())]
            if also_api:
                # the other entry points see the same scopes: render_to, and the program as the body of a block through
                # render_block / render_block_to (a second, untraced batch)
                tb = tpls + [["b" + suffix, "{% block k %}" + src + "{% endblock %}"]]
                api_jobs.append({"cfg": {"probes": True, "autoescape": [".html"], "gctx": G.context(env["gctx"]), "escape": env.get("esc", "html")}, "ctx": G.context(env["ctx"]),
                                 "steps": [{"op": "add", "tpls": list(reversed(tb))}, {"op": "render", "name": "t" + suffix},
                                           {"op": "render", "name": "t" + suffix, "to": {}}, {"op": "render_block", "name": "b" + suffix, "block": "k"},
                                           {"op": "render_block", "name": "b" + suffix, "block": "k", "to": {}},
                                           {"op": "render_str", "src": src, "auto": env["ae"]}, {"op": "render_str", "src": src, "auto": env["ae"], "to": {}}]})
            jobs.append({"cfg": {"probes": True, "autoescape": [".html"], "gctx": G.context(env["gctx"]), "escape": env.get("esc", "html")}, "ctx": G.context(env["ctx"]),
                         "steps": [{"op": "add", "tpls": list(reversed(tpls))}, {"op": "render", "name": "t" + suffix, "expect_ae": env["ae"]}]
                                  + ([{"op": "render_str", "src": src, "auto": env["ae"], "expect_ae": env["ae"]}] if also_str else [])})
            meta.append((vi, ei, src))
    res = vp.traced(jobs, C, tag) if traced else vp.run_jobs(jobs, tag=tag, timeout=3000)
    api_res = vp.run_jobs(api_jobs, tag=tag + "-api", timeout=3000) if api_jobs else []
    for (vi, ei, src), ar, aj in zip(meta, api_res, api_jobs):
        if vecs[vi]["r"][ei]["r"] == "unspec" or not ar[0].get("ok"):
            continue
        C.count()
        x = ar[1]
        base = (x.get("ok"), x.get("out") if x.get("ok") else None)
        for y, st in zip(ar[2:], aj["steps"][2:]):
            got = y.get("out") if "out" in y else y.get("accepted")
            if (y.get("ok"), got if y.get("ok") else None) != base:
                C.violation({"theme": theme, "src": src, "env": ei, "kind": "entry-point", "op": st["op"], "to": "to" in st}, "%r (env %d): %s%s gives %r, render gives %r" % (
                    src, ei, st["op"], "_to" if "to" in st else "", got if y.get("ok") else "error: " + (y.get("msg") or y.get("disp", ""))[:80], x.get("out") if x.get("ok") else "error"), {"job": aj, "got": y})
    for (vi, ei, src), rr, job in zip(meta, res, jobs):
        C.count()
        exp = dict(vecs[vi]["r"][ei])
        exp["out"] = G.unplace(exp.get("out", ""))
        add, x = rr[0], rr[1]
        key = {"theme": theme, "src": src, "env": ei}
        if any(y.get("panic") or y.get("abort") for y in rr):
            C.violation(dict(key, kind="panic"), "panic rendering %r" % src, {"job": job, "result": rr})
            continue
        if not add.get("ok"):
            C.violation(dict(key, kind="rejected"), "well-formed program rejected at registration: %r: %s" % (src, (add.get("msg") or add.get("disp", ""))[:120]),
                        {"job": job, "result": add})
            continue
        if exp["r"] != "unspec":
            C.nontrivial([theme, vi, ei])
        if exp["r"] == "ok":
            if not x.get("ok") or x.get("out") != exp["out"]:
                C.violation(dict(key, kind="output"), "%r (env %d, autoescape %s): engine %s, specification %r" % (
                    src, ei, envs[ei]["ae"], repr(x.get("out")) if x.get("ok") else "error: " + (x.get("msg") or x.get("disp", ""))[:100], exp["out"]),
                    {"job": job, "expected": exp, "got": x})
        elif exp["r"] == "err":
            if x.get("ok"):
                C.violation(dict(key, kind="noerr"), "%r (env %d): engine renders %r, the specification says error" % (src, ei, x.get("out")),
                            {"job": job, "expected": exp, "got": x})
        if also_str and exp["r"] != "unspec":
            y = rr[2]
            if (y.get("ok"), y.get("out")) != (x.get("ok"), x.get("out")):
                C.violation(dict(key, kind="render_str"), "%r: render_str(.., autoescape=%s) gives %r but render of the registered template %r" % (
                    src, envs[ei]["ae"], y.get("out") if y.get("ok") else "error", x.get("out") if x.get("ok") else "error"), {"job": job, "got": rr})
    if meta:
        k = len(meta) // 2
        C.sample({"theme": theme, "src": meta[k][2], "env": meta[k][1], "expected": vecs[meta[k][0]]["r"][meta[k][1]]})
    return len(vecs)
