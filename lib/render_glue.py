"""Trusted glue for Render.tla / MC_Render.tla: prints token sequences as template text and converts
specification values to typed context values. Knows nothing about expected results."""
import json

TEXTS_FALLBACK = {}


# placeholders of the specification for non-ASCII characters (TLC's JSON output mangles non-ASCII text)
PLACE = {"`": "é", "^": "世", "|": "\U0001F600"}


def unplace(s):
    for k, v in PLACE.items():
        s = s.replace(k, v)
    return s


def chars(x):
    return unplace("".join(x))


def expr(e):
    k = e["e"]
    if k == "var":
        return e["n"]
    if k == "lit":
        s = chars(e["s"])
        q = '"' if "'" in s else "'"
        assert q not in s
        return q + s + q
    if k == "num":
        return str(e["v"])
    if k == "cat":
        return "%s ~ %s" % (atom(e["a"]), atom(e["b"]))
    if k == "filt":
        return "%s | %s" % (atom(e["a"]), e["f"])
    if k == "loop":
        return "loop." + e["f"]
    if k == "attr":
        return "%s.%s" % (atom(e["a"]), e["n"])
    if k == "idx":
        return "%s[%d]" % (atom(e["a"]), e["i"])
    raise ValueError(k)


def atom(e):
    if e["e"] in ("var", "lit", "num", "loop", "attr", "idx"):
        return expr(e)
    return "(" + expr(e) + ")"


END = {"if": "endif", "for": "endfor", "forkv": "endfor", "setblock": "endset", "setgblock": "endset", "filter": "endfilter"}


def source(prog, texts, suffix):
    out, stack = [], []
    for t in prog:
        k = t["k"]
        if k == "text":
            out.append(chars(texts[t["n"]]))
        elif k == "print":
            out.append("{{ " + expr(t["e"]) + " }}")
        elif k == "set":
            out.append("{% set " + t["n"] + " = " + expr(t["e"]) + " %}")
        elif k == "setg":
            out.append("{% set_global " + t["n"] + " = " + expr(t["e"]) + " %}")
        elif k in ("if", "elif"):
            out.append("{% " + k + " " + expr(t["e"]) + " %}")
            if k == "if":
                stack.append(k)
        elif k == "else":
            out.append("{% else %}")
        elif k == "for":
            out.append("{% for " + t["n"] + " in " + expr(t["e"]) + " %}")
            stack.append(k)
        elif k == "forkv":
            out.append("{% for " + t["n"] + ", " + t["m"] + " in " + expr(t["e"]) + " %}")
            stack.append(k)
        elif k in ("break", "continue"):
            out.append("{% " + k + " %}")
        elif k == "setblock":
            out.append("{% set " + t["n"] + (" | " + t["m"] if t["m"] else "") + " %}")
            stack.append(k)
        elif k == "setgblock":
            out.append("{% set_global " + t["n"] + (" | " + t["m"] if t["m"] else "") + " %}")
            stack.append(k)
        elif k == "filter":
            out.append("{% filter " + t["n"] + " %}")
            stack.append(k)
        elif k == "include":
            out.append("{% include '" + t["n"] + suffix + "' %}")
        elif k == "end":
            out.append("{% " + END[stack.pop()] + " %}")
        else:
            raise ValueError(k)
    return "".join(out)


def value(v):
    k = v["k"]
    if k == "str":
        return {"$safe": chars(v["s"])} if v["safe"] else chars(v["s"])
    if k == "int":
        return v["n"]
    if k == "bool":
        return v["b"]
    if k == "none":
        return None
    if k == "undef":
        return {"$undef": 1}
    if k == "arr":
        return [value(x) for x in v["xs"]]
    if k == "map":
        return {kk: value(vv) for kk, vv in zip(v["ks"], v["vs"])}
    raise ValueError(k)


def context(f):
    if isinstance(f, list):        # empty function printed as a sequence
        assert not f
        return {}
    return {k: value(v) for k, v in f.items()}
