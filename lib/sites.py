"""Operand sites (spec/Sites.tla, MC_Sites): what produces an operand x what consumes it, replayed in several hosts.
Used by C07 (never a panic; error exactly when the specification says the consumer refuses the kind), C12 (span laws, in
checks/c12.py through MC_Spans) and C17 (the built-in consumers)."""
import vp

PROD = {"plit": "1", "pstr": "'a'", "pvar": "m", "pnot": "(not m)", "pisdef": "(m is defined)", "pisnot": "(m is not defined)", "pin": "(1 in xs)", "pnotin": "(2 not in xs)",
        "peq": "(1 == 1)", "plt": "(1 < 2)", "pand": "(m and false)", "psub": "xs[0]", "pattr": "m.a", "pidx": "m['a']", "padd": "(1 + 1)", "pcat": "('a' ~ 'b')",
        "pfilt": "('a' | upper)", "pcall": "range(end=2)", "parr": "[1]", "ptern": "(1 if m else 2)", "pcomp": "[x for x in xs]", "pslice": "xs[0:1]", "ptrue": "true",
        "pneg": "(-1)", "plen": "(xs | length)", "pmaplit": "{'a': 1}", "psubstr": "nm[0]", "pcomponent": "<ok />",
        "pnone": "none", "pundefopt": "m?.zz", "pfloat": "2.5", "pbytes": "by"}
CONS = {"cadd": "{{ P + 1 }}", "cneg": "{{ -P }}", "cupper": "{{ P | upper }}", "cabs": "{{ P | abs }}", "cfor": "{% for q in P %}{% endfor %}", "clt": "{{ P < 1 }}",
        "cspreadm": "{{ {...P } }}", "cspreada": "{{ [...P] }}", "creplace": "{{ P | replace(from='a', to='b') }}", "cdiv0": "{{ P / 0 }}", "crange": "{{ range(start=-5, end=P) }}",
        "cisdiv": "{{ P is divisible_by(divisor=2) }}", "ccomp": "{{<tn n={ P } />}}", "ccompbody": "{% <tn n={ P }> %}b{% </tn> %}"}
BUILTIN_CONS = ("cupper", "cabs", "creplace", "crange", "cisdiv")
OKCOMP = "{% component ok() %}o{% endcomponent ok %}{% component tn(n: integer) %}{{ n }}{% endcomponent tn %}"
CTX = {"m": {"a": 1}, "xs": [1], "nm": "n", "by": {"$bytes": [65, 66]}}
# hosts: where the expression stands (name -> templates around S, entry)
HOSTS = {
    "entry": lambda S: ([["t.html", "a " + S + " z"]], "t.html"),
    "component": lambda S: ([["c.html", "{% component k(m, xs, nm, by) %}" + S + "{% endcomponent k %}"], ["t.html", "{{<k m={m} xs={xs} nm={nm} by={by} />}}"]], "t.html"),
    "child-block": lambda S: ([["p.html", "{% block b %}{% endblock %}"], ["t.html", "{% extends 'p.html' %}{% block b %}" + S + "{% endblock %}"]], "t.html"),
    "included": lambda S: ([["i.html", S], ["t.html", "{% include 'i.html' %}"]], "t.html"),
    "set-block": lambda S: ([["t.html", "{% set v %}" + S + "{% endset %}{{ v }}"]], "t.html"),
    "filter-section": lambda S: ([["t.html", "{% filter upper %}" + S + "{% endfilter %}"]], "t.html"),
    "call-body": lambda S: ([["w.html", "{% component w() %}{{ body }}{% endcomponent w %}"], ["t.html", "{% <w> %}" + S + "{% </w> %}"]], "t.html"),
    "loop": lambda S: ([["t.html", "{% for i in [1, 2] %}" + S + "{% endfor %}"]], "t.html"),
}


def run(C, pid, hosts, only=None):
    r = vp.tlc("MC_Sites", "MC_Sites", workers=2, timeout=600, name=pid.lower() + "-sites")
    C.add_tlc(r, "MC_Sites (operand producers x consumers)")
    jobs, meta = [], []
    for v in r.tags["VEC"]:
        if only and v["c"] not in only:
            continue
        S = CONS[v["c"]].replace("P", PROD[v["p"]])
        for h in hosts:
            tpls, entry = HOSTS[h](S)
            for opt in (True, False):
                jobs.append({"cfg": {"optimize": opt}, "ctx": CTX, "steps": [{"op": "add", "tpls": tpls + [["ok.html", OKCOMP]]}, {"op": "render", "name": entry}]})
                meta.append((v, h, opt, S))
    res = vp.run_jobs(jobs, tag=pid.lower() + "-sites", timeout=1200)
    for (v, h, opt, S), rr, job in zip(meta, res, jobs):
        C.count()
        C.nontrivial(["site", v["p"], v["c"], h, opt])
        key = {"kind": "site", "producer": v["p"], "consumer": v["c"], "host": h, "optimizer": opt}
        if any(y.get("panic") or y.get("abort") for y in rr):
            C.violation(dict(key, kind="site-panic"), "%s (%s): the render panics: %s" % (S, h, [y.get("msg") or y.get("rc") for y in rr if y.get("panic") or y.get("abort")][:1]), {"job": job, "result": rr})
        elif not rr[0].get("ok"):
            C.violation(dict(key, kind="site-refused"), "%s (%s) is refused at registration: %s" % (S, h, (rr[0].get("msg") or rr[0].get("disp", ""))[:160]), {"job": job})
        elif bool(rr[1].get("ok")) == bool(v["fails"]):
            C.violation(dict(key, kind="site-outcome"), "%s (%s): the operand is a %s: the specification says the consumer %s, the engine %s" % (
                S, h, v["kind"], "refuses it" if v["fails"] else "accepts it", ("renders %r" % rr[1].get("out")) if rr[1].get("ok") else "fails: " + (rr[1].get("msg") or rr[1].get("disp", ""))[:120]),
                {"job": job, "result": rr})
