"""Shared machinery for the checks: build the harness from /repo's working tree, run TLC,
parse what the specification emitted, run jobs through the real engine, validate traces,
write evidence, apply known findings, print VIOLATION / KNOWN-FINDING lines.

Nothing in this file knows an expected result: expectations come from the TLA+ modules."""
import json, os, re, subprocess, sys, time, hashlib, shutil, signal

VERIF = os.path.dirname(os.path.dirname(os.path.abspath(__file__)))
SPEC = os.path.join(VERIF, "spec")
WORK = os.path.join(VERIF, "work")
HARNESS = os.path.join(VERIF, "harness")
RUNNER = os.path.join(HARNESS, "target", "release", "tera-verif-harness")
# the tree under test: /repo unless VERIF_REPO (or, inside `vp run --with-repo`, VP_RUN_REPO) names another copy
REPO = os.environ.get("VERIF_REPO") or os.environ.get("VP_RUN_REPO") or "/repo"
NCPU = os.cpu_count() or 4


class ToolError(Exception):
    pass


def seed():
    try:
        return int(os.environ.get("VERIF_SEED", "0"))
    except ValueError:
        return 0


def workdir(name):
    d = os.path.join(WORK, name)
    shutil.rmtree(d, ignore_errors=True)
    os.makedirs(d, exist_ok=True)
    return d


_built = {}


def ensure_harness(bins=()):
    """(Re)build the harness against /repo's current working tree with the hooks on."""
    if _built.get("ok"):
        return
    env = dict(os.environ, CARGO_NET_OFFLINE="true")
    lock = os.path.join(HARNESS, "Cargo.lock")
    if not os.path.exists(lock):
        shutil.copy(os.path.join(REPO, "Cargo.lock"), lock)
    # the manifest names the tree under test; it is generated from Cargo.toml.in
    tmpl = open(os.path.join(HARNESS, "Cargo.toml.in")).read().replace("@REPO@", REPO)
    mf = os.path.join(HARNESS, "Cargo.toml")
    if not os.path.exists(mf) or open(mf).read() != tmpl:
        with open(mf, "w") as f:
            f.write(tmpl)
    p = subprocess.run(["cargo", "build", "--release", "--offline", "--bins"], cwd=HARNESS, env=env,
                       stdout=subprocess.PIPE, stderr=subprocess.STDOUT, text=True)
    if p.returncode != 0:
        sys.stdout.write(p.stdout[-4000:])
        raise ToolError("harness build failed (the tree does not compile with --cfg tera_verif)")
    _built["ok"] = True


def bin_path(name):
    return os.path.join(HARNESS, "target", "release", name)


# ---------------------------------------------------------------- TLC

class TlcResult:
    def __init__(self):
        self.vecs = []          # parsed JSON payloads of PrintT(<<tag, json>>) lines
        self.tags = {}          # tag -> list of payloads
        self.states = 0
        self.distinct = 0
        self.ok = False
        self.error = ""         # first error line(s)
        self.violated = None    # invariant name if violated
        self.deadlock = False
        self.out = ""
        self.wall = 0.0
        self.coverage = {}
        self.trace_states = []  # counterexample (text)


_EMIT = re.compile(r'^<<"([A-Z]+)", (".*")>>$')


def tlc(module, cfg=None, env=None, workers=None, timeout=600, simulate=None, depth=None, deadlock=None,
        dfs=False, coverage=False, name=None, xmx="8g", keep_out=True, allow_fail=False, seed_=None, lazy=()):
    """Run TLC on spec/<module>.tla with spec/<cfg>.cfg; return TlcResult."""
    name = name or (cfg or module)
    meta = workdir("tlc-" + name)
    cmd = [os.path.join(VERIF, "bin", "tlc"), "-metadir", meta, "-cleanup", "-noGenerateSpecTE"]
    cmd += ["-workers", str(workers or NCPU)]
    if cfg:
        cmd += ["-config", cfg + ".cfg"]
    if simulate:
        cmd += ["-simulate", "num=%d" % simulate]
        if depth:
            cmd += ["-depth", str(depth)]
        cmd += ["-seed", str(seed_ if seed_ is not None else seed())]
    if deadlock is True:
        pass
    elif deadlock is False:
        cmd += ["-deadlock"]   # -deadlock disables deadlock checking
    if coverage:
        cmd += ["-coverage", "1"]
    cmd += [module + ".tla"]
    e = dict(os.environ)
    jopts = "-Xmx" + xmx
    if dfs:
        jopts += " -Dtlc2.tool.queue.IStateQueue=StateDeque"
    e["TLC_JAVA_OPTS"] = jopts
    if env:
        e.update({k: str(v) for k, v in env.items()})
    t0 = time.time()
    # TLC's output can be gigabytes of emitted vectors: it goes to a file and is read line by line; what is kept as text is
    # everything EXCEPT the emitted lines; tags named in `lazy` keep their JSON text undecoded (json.loads on demand)
    outp = os.path.join(meta, "tlc.out")
    try:
        with open(outp, "w") as fo:
            p = subprocess.run(cmd, cwd=SPEC, env=e, stdout=fo, stderr=subprocess.STDOUT, timeout=timeout)
    except subprocess.TimeoutExpired:
        raise ToolError("TLC timed out after %ds on %s" % (timeout, name))
    r = TlcResult()
    r.wall = time.time() - t0
    err_lines = []
    kept = []
    fin = open(outp, errors="replace")
    for line in fin:
        line = line.rstrip("\n")
        m = _EMIT.match(line.strip())
        if m:
            try:
                inner = json.loads(m.group(2))
                payload = inner if m.group(1) in lazy else json.loads(inner)
            except Exception:
                raise ToolError("cannot parse emitted line: " + line[:300])
            if m.group(1) not in lazy:
                r.vecs.append(payload)
            r.tags.setdefault(m.group(1), []).append(payload)
            continue
        kept.append(line)
        if len(kept) > 20000:
            kept = kept[:2000] + kept[-8000:]
        m = re.match(r"^(\d+) states generated, (\d+) distinct states found", line)
        if m:
            r.states, r.distinct = int(m.group(1)), int(m.group(2))
        m = re.match(r"^Error: Invariant (\S+) is violated", line)
        if m:
            r.violated = m.group(1)
        if line.startswith("Error: Deadlock reached"):
            r.deadlock = True
        if line.startswith("Error:") or "Exception" in line:
            err_lines.append(line)
        m = re.match(r"^<(\w+) line .* of module (\w+)>: (\d+):(\d+)", line)
        if m:
            r.coverage[m.group(1)] = int(m.group(4))
    fin.close()
    os.remove(outp)
    out = "\n".join(kept)
    r.out = out if keep_out else ""
    r.error = "\n".join(err_lines[:6])
    if simulate:
        m = re.search(r"(\d+) states checked", out)
        if m:
            r.states = int(m.group(1))
            r.distinct = r.distinct or r.states
    r.ok = ("Model checking completed. No error has been found." in out) or \
           (simulate is not None and not err_lines and p.returncode in (0,))
    if not r.ok and not allow_fail:
        sys.stdout.write(out[-3000:])
        raise ToolError("TLC failed on %s: %s" % (name, r.error[:500]))
    return r


# ---------------------------------------------------------------- the runner

def run_jobs(jobs, trace_out=None, timeout=900, tag="jobs", may_abort=False):
    """Run jobs through the real engine. Returns list of results aligned with jobs.
    A job during which the process died is reported as {"abort": True, "rc": rc}."""
    ensure_harness()
    d = os.path.join(WORK, "run-" + tag)
    os.makedirs(d, exist_ok=True)
    results = [None] * len(jobs)
    start = 0
    part = 0
    traces = []
    while start < len(jobs):
        jp = os.path.join(d, "jobs-%d.ndjson" % part)
        with open(jp, "w") as f:
            for k in range(start, len(jobs)):
                j = dict(jobs[k])
                j["id"] = k
                if may_abort:
                    j["may_abort"] = 1
                f.write(json.dumps(j) + "\n")
        cmd = [RUNNER, "--jobs", jp]
        tp = None
        if trace_out:
            tp = trace_out if part == 0 else trace_out + ".%d" % part
            cmd += ["--trace-out", tp]
            traces.append(tp)
        try:
            p = subprocess.run(cmd, stdout=subprocess.PIPE, stderr=subprocess.DEVNULL, timeout=timeout)
            rc = p.returncode
            out = p.stdout
        except subprocess.TimeoutExpired as te:
            rc = "timeout"
            out = te.stdout or b""
        last_started = None
        done = start
        for line in out.decode("utf-8", "replace").split("\n"):
            if not line.strip():
                continue
            try:
                r = json.loads(line)
            except Exception:
                continue
            if "start" in r:
                last_started = r["start"]
                continue
            results[r["id"]] = r["r"]
            done = r["id"] + 1
        if rc == 0:
            break
        # the process died (abort / stack overflow / timeout): attribute it to the job in progress
        crashed = last_started if (last_started is not None and last_started >= done) else done
        if crashed >= len(jobs):
            break
        results[crashed] = [{"abort": True, "rc": rc}]
        start = crashed + 1
        part += 1
        if part > (2000 if may_abort else 40):
            # the engine killed the process that many times: that is data about the code under test, not a tool error
            crashed_jobs = [jobs[k] for k in range(len(jobs)) if results[k] and results[k][0].get("abort")][:5]
            raise CrashStorm(part, crashed_jobs)
    for k, r in enumerate(results):
        if r is None:
            results[k] = [{"abort": True, "rc": "lost"}]
    for fn in os.listdir(d):                      # job files can be large (every restart rewrites the remainder)
        if fn.startswith("jobs-") and fn.endswith(".ndjson"):
            os.remove(os.path.join(d, fn))
    return results


# ---------------------------------------------------------------- trace validation

def validate_traces(trace_path, module="Trace_TeraVM", cfg="Trace_TeraVM", timeout=900, env=None, name=None):
    """TLC decides whether every recorded trace is a behaviour of the VM specification.
    Returns dict(accepted, traces, events, rejected_line, rejected_event)."""
    n_events = 0
    n_traces = 0
    with open(trace_path) as f:
        for line in f:
            n_events += 1
            if line.startswith('{"e":"reset"'):
                n_traces += 1
    if n_events == 0:
        return dict(accepted=True, traces=0, events=0, states=0)
    e = {"TRACE": trace_path}
    if env:
        e.update(env)
    r = tlc(module, cfg, env=e, workers=1, dfs=True, timeout=timeout, deadlock=False, name=name or "trace",
            xmx="6g", allow_fail=True)
    m = re.search(r'"REJECTED", (\d+), (.*)>>', r.out)
    if r.ok:
        return dict(accepted=True, traces=n_traces, events=n_events, states=r.distinct)
    if m:
        ln = int(m.group(1))
        ev = None
        with open(trace_path) as f:
            for i, line in enumerate(f, 1):
                if i == ln:
                    ev = line.strip()
                    break
        return dict(accepted=False, traces=n_traces, events=n_events, rejected_line=ln, rejected_event=ev,
                    states=r.distinct, why=m.group(2)[:300])
    sys.stdout.write(r.out[-3000:])
    raise ToolError("trace validation failed without a verdict: " + r.error[:300])


def trace_slice(trace_path, line_no):
    """The reset-delimited trace containing line_no (list of event strings) and the offset within it."""
    cur = []
    start = 1
    with open(trace_path) as f:
        for i, line in enumerate(f, 1):
            if line.startswith('{"e":"reset"'):
                if i > line_no:
                    break
                cur = []
                start = i
            cur.append(line.strip())
    return cur, line_no - start


# ---------------------------------------------------------------- findings, violations, evidence

def load_known():
    p = os.path.join(VERIF, "known_findings.json")
    if not os.path.exists(p):
        return []
    return json.load(open(p)).get("findings", [])


class Check:
    def __init__(self, prop, tier, level):
        self.prop = prop
        self.tier = tier
        self.level = level
        self.t0 = time.time()
        self.violations = []     # (key, description, replay dict)
        self.known_hit = {}
        self.cov = {"evaluations": 0, "distinct_nontrivial": 0, "rule": "", "samples": [],
                    "states": 0, "transitions": 0, "traces_validated_against_impl": 0}
        self.assumptions = []
        self.known = [k for k in load_known() if k.get("property") == prop and k.get("status") == "known"]
        self.distinct = set()
        self.notes = []
        self.drift = []          # trace steps that are no TeraVM step (binding drift, not a verdict)
        global CURRENT
        CURRENT = self

    def add_tlc(self, r, label=None):
        self.cov["states"] += r.distinct
        self.cov["transitions"] += r.states
        self.cov.setdefault("tlc_runs", []).append(
            {"name": label or "", "distinct_states": r.distinct, "states_generated": r.states, "wall_s": round(r.wall, 1)})
        if r.coverage:
            self.cov.setdefault("action_coverage", {}).update(r.coverage)

    def sample(self, x, limit=6):
        if len(self.cov["samples"]) < limit:
            self.cov["samples"].append(x)

    def count(self, n=1):
        self.cov["evaluations"] += n

    def nontrivial(self, key):
        h = hashlib.md5(json.dumps(key, sort_keys=True, default=str).encode()).hexdigest()
        self.distinct.add(h)

    def violation(self, key, what, replay):
        """key: dict identifying the failing input (matched against known findings)."""
        for k in self.known:
            if _matches(k.get("match", {}), key):
                self.known_hit.setdefault(k["id"], (k, 0))
                kk, n = self.known_hit[k["id"]]
                self.known_hit[k["id"]] = (kk, n + 1)
                return False
        self.violations.append((key, what, replay))
        return True

    def finish(self):
        self.cov["distinct_nontrivial"] = len(self.distinct)
        wall = time.time() - self.t0
        for kid, (k, n) in sorted(self.known_hit.items()):
            print("KNOWN-FINDING: property=%s %s (%d occurrence(s) in this run; id=%s)" % (self.prop, k.get("what", ""), n, kid))
        rc = 0
        rdir = os.path.join(VERIF, "replays", self.prop)
        if self.violations:
            os.makedirs(rdir, exist_ok=True)
        for i, (key, what, replay) in enumerate(self.violations[:20]):
            path = os.path.join(rdir, "%s-%d.json" % (self.tier, i))
            with open(path, "w") as f:
                json.dump({"property": self.prop, "what": what, "key": key, "replay": replay,
                           "how": "bin/check %s --replay %s" % (self.prop, path)}, f, indent=1, default=str)
            print("VIOLATION property=%s replay=%s" % (self.prop, path))
            print("  " + what[:600])
            rc = 1
        if self.drift and rc == 0:
            # the recorded execution is not a behaviour of the VM specification, but no property-level
            # evidence was found: the specification no longer describes the code (exit 2, no verdict)
            for dr in self.drift[:3]:
                print("SPEC-DRIFT: trace step not allowed by TeraVM: %s (after %s)" % (dr.get("event"), dr.get("prev")))
            rc = 2
        ev = {"property_id": self.prop, "tier": self.tier, "seed": seed(), "level": self.level,
              "coverage": self.cov, "assumptions": self.assumptions, "wall_s": round(wall, 2),
              "violations": len(self.violations)}
        if self.known_hit:
            ev["coverage"]["known_findings_reproduced"] = sorted(self.known_hit.keys())
        if self.notes:
            ev["coverage"]["notes"] = self.notes
        os.makedirs(os.path.join(VERIF, "evidence"), exist_ok=True)
        with open(os.path.join(VERIF, "evidence", self.prop + ".json"), "w") as f:
            json.dump(ev, f, indent=1, default=str)
        print("%s %s: %d evaluations, %d distinct non-trivial, %d states, %d traces validated, %d violation(s), %.1fs" % (
            self.prop, self.tier, self.cov["evaluations"], self.cov["distinct_nontrivial"], self.cov["states"],
            self.cov["traces_validated_against_impl"], len(self.violations), wall))
        return rc


def _matches(pattern, key):
    """A known-finding pattern matches a violation key when every pattern field equals the key's field
    (or, for {"min": n}, the key's field is >= n; for {"in": [...]}, membership)."""
    if not pattern:
        return False
    for f, want in pattern.items():
        have = key.get(f)
        if isinstance(want, dict) and "min" in want:
            if not (isinstance(have, (int, float)) and have >= want["min"]):
                return False
        elif isinstance(want, dict) and "in" in want:
            if have not in want["in"]:
                return False
        elif have != want:
            return False
    return True


def flat(x):
    """Specification-side text -> str: strings are kept, integers are code points, sequences are concatenated."""
    if isinstance(x, str):
        return x
    if isinstance(x, int):
        return chr(x)
    return "".join(flat(y) for y in x)


class CrashStorm(Exception):
    def __init__(self, n, jobs):
        Exception.__init__(self, "the engine killed the runner process %d times in one batch" % n)
        self.n, self.jobs = n, jobs


CURRENT = None


def main_wrapper(fn):
    """Run a check; map tool errors to exit 2 so they are never mistaken for violations."""
    try:
        rc = fn()
    except CrashStorm as e:
        if CURRENT is None:
            print("TOOL-ERROR: %s" % e)
            sys.exit(2)
        CURRENT.violation({"kind": "abort-storm"}, "%s (stack overflow, abort or hang inside the engine); the check stopped there; first jobs that died are in the replay file" % e,
                          {"jobs": e.jobs})
        CURRENT.cov.setdefault("notes", []).append("stopped early: " + str(e))
        rc = CURRENT.finish()
    except ToolError as e:
        print("TOOL-ERROR: %s" % e)
        sys.exit(2)
    except SystemExit:
        raise
    except BaseException as e:         # a bug in the machinery must never look like a verdict (exit 1)
        import traceback
        traceback.print_exc()
        print("TOOL-ERROR: %s: %s" % (type(e).__name__, e))
        sys.exit(2)
    sys.exit(rc)


# ---------------------------------------------------------------- traced renders

def with_listing(job):
    """Append the steps that dump the listings of every chunk the job's renders can execute."""
    j = dict(job)
    steps = list(j["steps"])
    extra = [{"op": "listing"}]
    for s in j["steps"]:
        if s.get("op") == "render_str":
            extra.append({"op": "listing_str", "src": s["src"]})
    j["steps"] = steps + extra
    j["_nsteps"] = len(steps)
    return j


def collect_chunks(results, chunks):
    for r in results:
        for s in r:
            if isinstance(s, dict) and "listing" in s:
                for ch in s["listing"]:
                    chunks.setdefault(ch["h"], ch)


def traced(jobs, check, tag, timeout=900, chunk_limit=250000):
    """Run jobs with the tracer on, validate every recorded trace against TeraVM on the real listings.
    Returns the per-job results (listing steps stripped). Records flags/rejections on `check`."""
    jl = [with_listing(dict(j, trace=True)) for j in jobs]
    d = os.path.join(WORK, "run-" + tag)
    shutil.rmtree(d, ignore_errors=True)
    os.makedirs(d, exist_ok=True)
    tp = os.path.join(d, "trace.ndjson")
    res = run_jobs(jl, trace_out=tp, tag=tag, timeout=timeout)
    # chunk table keyed by (hash, content); the 31-bit hash of the hook is resolved per job (it is only unique within a job:
    # with several 10^5 chunks in one batch two different chunks do share a hash)
    cp = os.path.join(d, "chunks.ndjson")
    by_code, job_h, glob_h = {}, [], {}
    cf = open(cp, "w")

    def intern(ch, hm):
        ck = (ch["h"], json.dumps(ch["code"], sort_keys=True))
        if ck not in by_code:
            by_code[ck] = len(by_code) + 1
            cf.write(json.dumps({"h": ch["h"], "code": ch["code"]}) + "\n")
        hm[ch["h"]] = by_code[ck]
        glob_h.setdefault(ch["h"], set()).add(by_code[ck])

    for r in res:
        hm = {}
        for st in r:
            if isinstance(st, dict) and "listing" in st:
                for ch in st["listing"]:
                    intern(ch, hm)
        job_h.append(hm)
    out = [r[:j["_nsteps"]] for r, j in zip(res, jl)]
    enter_re = re.compile(r'"h":(\d+),')
    job_re = re.compile(r'"job":(\d+)')
    hidx = {}
    # split the trace file into pieces of bounded size (ndJsonDeserialize materialises the whole file)
    pieces = []
    cur = []
    n = 0
    paths = [tp] + [tp + ".%d" % k for k in range(1, 60) if os.path.exists(tp + ".%d" % k)]
    for path in paths:
        with open(path) as f:
            for line in f:
                if line.startswith('{"e":"reset"') and n >= chunk_limit:
                    pieces.append(cur)
                    cur = []
                    n = 0
                if line.startswith('{"e":"reset"'):
                    mj = job_re.search(line)
                    hidx = job_h[int(mj.group(1))] if mj and int(mj.group(1)) < len(job_h) else {}
                if line.startswith('{"e":"listing"'):
                    # a one-off template (render_str) exists only during the call: the hook puts the listing of the very
                    # compilation that runs into the trace (a second compilation can differ: keyword arguments sit in a HashMap)
                    intern(json.loads(line)["l"], hidx)
                    continue
                if line.startswith('{"e":"enter"'):
                    m = enter_re.search(line)
                    hv = int(m.group(1))
                    ci = hidx.get(hv, 0)
                    if ci == 0 and len(glob_h.get(hv, ())) == 1:
                        # a one-off source is compiled again for its listing and the compiler iterates a HashMap of keyword
                        # arguments, so the second compilation can differ from the one that ran; another job of the batch
                        # that compiled the same source the same way supplies the listing (only if the hash is unambiguous)
                        ci = next(iter(glob_h[hv]))
                    line = line.replace('{"e":"enter",', '{"e":"enter","c":%d,' % ci, 1)
                cur.append(line)
                n += 1
    if cur:
        pieces.append(cur)
    cf.close()
    # a trace cut short by an abort has no "end": drop incomplete tails
    for k, piece in enumerate(pieces):
        pp = os.path.join(d, "piece-%d.ndjson" % k)
        # keep only complete reset..end groups
        good = []
        grp = []
        for line in piece:
            if line.startswith('{"e":"reset"'):
                grp = [line]
            else:
                grp.append(line)
                if line.startswith('{"e":"end"'):
                    if len(grp) > 300000:
                        # one render with an enormous trace (nested loops over long inputs): not validated, counted
                        check.cov["traces_too_long_to_validate"] = check.cov.get("traces_too_long_to_validate", 0) + 1
                    else:
                        good.extend(grp)
                    grp = []
        with open(pp, "w") as f:
            f.writelines(good)
        if not good:
            continue
        e = {"TRACE": pp, "CHUNKS": cp}
        # ~2500 events/s on an idle machine: allow 500 events/s before calling it a timeout
        r = tlc("Trace_TeraVM", "Trace_TeraVM", env=e, workers=1, dfs=True, timeout=max(timeout, 120 + len(good) // 500), deadlock=False,
                name="trace-%s-%d" % (tag, k), xmx="8g", allow_fail=True)
        check.add_tlc(r, "Trace_TeraVM:%s:%d" % (tag, k))
        ntr = sum(1 for x in good if x.startswith('{"e":"reset"'))
        flags = r.tags.get("FLAG", [])
        seen = set()
        for fl in flags:
            key = (fl["line"], fl["rule"])
            if key in seen:
                continue
            seen.add(key)
            sl, off = trace_slice(pp, fl["line"])
            head = json.loads(sl[0]) if sl else {}
            check.violation({"rule": fl["rule"], "trace_job": head.get("job"), "step": head.get("step")},
                            "recorded trace breaks %s at event %d: %s" % (fl["rule"], off, sl[off] if off < len(sl) else ""),
                            {"rule": fl["rule"], "job": jobs[head["job"]] if head.get("job") is not None and head["job"] < len(jobs) else None,
                             "events": sl[:off + 1][-40:]})
        if r.ok:
            check.cov["traces_validated_against_impl"] += ntr
            continue
        m = re.search(r'"REJECTED", (\d+)', r.out)
        if not m:
            sys.stdout.write(r.out[-3000:])
            raise ToolError("trace validation failed without a verdict: " + r.error[:300])
        ln = int(m.group(1))
        sl, off = trace_slice(pp, ln)
        head = json.loads(sl[0]) if sl else {}
        check.drift.append({"piece": pp, "line": ln, "event": sl[off] if off < len(sl) else None,
                            "job": head.get("job"), "step": head.get("step"),
                            "prev": sl[max(0, off - 3):off]})
    if not check.drift and not os.environ.get("VERIF_KEEP_WORK"):
        shutil.rmtree(d, ignore_errors=True)       # traces and chunk tables are only needed while TLC validates them
    return out
