-------------------------------- MODULE Arith --------------------------------
(***************************************************************************)
(* C13: integer arithmetic is exact or an error; comparisons between any   *)
(* two numbers are exact.  Numbers are                                     *)
(*   [k |-> "int", v |-> BigNum]                                           *)
(*   [k |-> "flt", s |-> negative?, m |-> magnitude, e |-> exp2]   = (-1)^s * m * 2^e   (exact dyadic; m may be 0: +-0) *)
(*   [k |-> "nan"], [k |-> "inf", s |-> negative?]                          *)
(***************************************************************************)
EXTENDS BigNum
IntN(v) == [k |-> "int", v |-> v]
Flt(s, m, e) == [k |-> "flt", s |-> s, m |-> m, e |-> e]
NaN == [k |-> "nan"]
Inf(s) == [k |-> "inf", s |-> s]

Ok(v) == [r |-> "ok", v |-> v]
Err == [r |-> "err", v |-> Zero]
Unspec == [r |-> "unspec", v |-> Zero]
Fit(v) == IF FitsI128(v) THEN Ok(v) ELSE Err

\* ---- integer operators of the template language: exact when operands and result fit i128, else an error
IntOp(op, a, b) ==
  IF ~FitsI128(a) \/ ~FitsI128(b) THEN Err
  ELSE CASE op = "+" -> Fit(Add(a, b))
         [] op = "-" -> Fit(Sub(a, b))
         [] op = "*" -> Fit(Mul(a, b))
         [] op = "//" -> IF b = Zero THEN Err ELSE Fit(DivE(a, b))
         [] op = "%" -> IF b = Zero THEN Err ELSE Fit(ModE(a, b))
\* a ** e, e a small TLC integer >= 0 standing for itself; huge: the exponent is some integer >= 2^32 of the parity of e
PowOp(a, e, huge) ==
  IF ~FitsI128(a) THEN Err
  ELSE IF a = Zero THEN Ok(IF ~huge /\ e = 0 THEN One ELSE Zero)
  ELSE IF a = One THEN Ok(One)
  ELSE IF a = Neg(One) THEN Ok(IF e % 2 = 0 THEN One ELSE Neg(One))
  ELSE IF huge \/ e > 127 THEN Err
  ELSE LET p == PowCap(a, e, One) IN IF p.fits THEN Fit(p.v) ELSE Err
NegOp(a) == IF ~FitsI128(a) THEN Err ELSE Fit(Neg(a))

\* ---- exact comparison of any two numbers: -1, 0, 1 ; NaN equals itself and is after every number
RECURSIVE Shl(_, _)
Shl(m, k) == IF k = 0 THEN m ELSE Shl(MulSmall(m, 2), k - 1)
\* compare (-1)^s1 m1 2^e1 with (-1)^s2 m2 2^e2  (zero has no sign here)
CmpDy(s1, m1, e1, s2, m2, e2) ==
  LET n1 == s1 /\ m1 # <<>>
      n2 == s2 /\ m2 # <<>> IN
  IF n1 # n2 THEN (IF n1 THEN -1 ELSE 1)
  ELSE LET lo == IF e1 < e2 THEN e1 ELSE e2
           c == CmpMag(Shl(m1, e1 - lo), Shl(m2, e2 - lo)) IN
       IF n1 THEN -c ELSE c
AsDy(x) == IF x.k = "int" THEN [s |-> x.v.n, m |-> x.v.m, e |-> 0] ELSE [s |-> x.s, m |-> x.m, e |-> x.e]
\* the only divisors that make / // % fail: the integer 0 and the floats +0.0 and -0.0 (not NaN, not a tiny float)
IsZeroNum(x) == x.k \in {"int", "flt"} /\ AsDy(x).m = <<>>
CmpNum(x, y) ==
  CASE x.k = "nan" -> IF y.k = "nan" THEN 0 ELSE 1
    [] y.k = "nan" -> -1
    [] x.k = "inf" -> IF y.k = "inf" /\ y.s = x.s THEN 0 ELSE IF x.s THEN -1 ELSE 1
    [] y.k = "inf" -> IF y.s THEN 1 ELSE -1
    [] OTHER -> LET a == AsDy(x) b == AsDy(y) IN CmpDy(a.s, a.m, a.e, b.s, b.m, b.e)
=============================================================================
