------------------------------- MODULE BigNum -------------------------------
(***************************************************************************)
(* Exact integers for the specification: TLC's own integers are 32-bit,    *)
(* the engine's are 128-bit.  A number is [n |-> negative?, m |-> mag]     *)
(* where mag is a little-endian sequence of base-10^4 limbs without        *)
(* leading zero limbs (<<>> is 0).  School arithmetic, nothing clever.     *)
(***************************************************************************)
EXTENDS Integers, Sequences, TLC
B == 10000
RECURSIVE Strip(_)
Strip(m) == IF m # <<>> /\ m[Len(m)] = 0 THEN Strip(SubSeq(m, 1, Len(m) - 1)) ELSE m
RECURSIVE CmpM(_, _, _)
CmpM(a, b, i) == IF i = 0 THEN 0 ELSE IF a[i] # b[i] THEN (IF a[i] < b[i] THEN -1 ELSE 1) ELSE CmpM(a, b, i - 1)
CmpMag(a, b) == IF Len(a) # Len(b) THEN (IF Len(a) < Len(b) THEN -1 ELSE 1) ELSE CmpM(a, b, Len(a))
RECURSIVE AddM(_, _, _, _)
AddM(a, b, i, c) == IF i > Len(a) /\ i > Len(b) THEN (IF c = 0 THEN <<>> ELSE <<c>>)
                    ELSE LET s == (IF i <= Len(a) THEN a[i] ELSE 0) + (IF i <= Len(b) THEN b[i] ELSE 0) + c
                         IN <<s % B>> \o AddM(a, b, i + 1, s \div B)
AddMag(a, b) == AddM(a, b, 1, 0)
RECURSIVE SubM(_, _, _, _)
SubM(a, b, i, br) == IF i > Len(a) THEN <<>>
                     ELSE LET d == a[i] - (IF i <= Len(b) THEN b[i] ELSE 0) - br
                          IN IF d < 0 THEN <<d + B>> \o SubM(a, b, i + 1, 1) ELSE <<d>> \o SubM(a, b, i + 1, 0)
SubMag(a, b) == Strip(SubM(a, b, 1, 0))    \* requires a >= b
RECURSIVE MulS(_, _, _, _)
MulS(a, k, i, c) == IF i > Len(a) THEN (IF c = 0 THEN <<>> ELSE <<c>>)
                    ELSE LET p == a[i] * k + c IN <<p % B>> \o MulS(a, k, i + 1, p \div B)
MulSmall(a, k) == IF k = 0 THEN <<>> ELSE MulS(a, k, 1, 0)
RECURSIVE MulM(_, _, _)
MulM(a, b, j) == IF j > Len(b) THEN <<>>
                 ELSE LET rest == MulM(a, b, j + 1) IN
                      AddMag(MulSmall(a, b[j]), IF rest = <<>> THEN <<>> ELSE <<0>> \o rest)
MulMag(a, b) == IF a = <<>> \/ b = <<>> THEN <<>> ELSE Strip(MulM(a, b, 1))
\* long division, most significant limb first; each quotient limb by binary search
RECURSIVE Digit(_, _, _, _)
Digit(r, b, lo, hi) == IF lo = hi THEN lo
                       ELSE LET mid == (lo + hi + 1) \div 2 IN
                            IF CmpMag(MulSmall(b, mid), r) <= 0 THEN Digit(r, b, mid, hi) ELSE Digit(r, b, lo, mid - 1)
RECURSIVE DivM(_, _, _, _, _)
DivM(a, b, i, r, q) == IF i = 0 THEN [q |-> Strip(q), r |-> r]
                       ELSE LET r1 == Strip(<<a[i]>> \o r)
                                d == Digit(r1, b, 0, B - 1)
                            IN DivM(a, b, i - 1, SubMag(r1, MulSmall(b, d)), <<d>> \o q)
DivModMag(a, b) == DivM(a, b, Len(a), <<>>, <<>>)       \* requires b # <<>>

Mk(neg, m) == [n |-> neg /\ m # <<>>, m |-> m]
Zero == Mk(FALSE, <<>>)
One == Mk(FALSE, <<1>>)
Small(i) == IF i < 0 THEN Mk(TRUE, Strip(<<(-i) % B, (-i) \div B>>)) ELSE Mk(FALSE, Strip(<<i % B, i \div B>>))   \* |i| < 10^8
Add(x, y) == IF x.n = y.n THEN Mk(x.n, AddMag(x.m, y.m))
             ELSE IF CmpMag(x.m, y.m) >= 0 THEN Mk(x.n, SubMag(x.m, y.m)) ELSE Mk(y.n, SubMag(y.m, x.m))
Neg(x) == Mk(~x.n, x.m)
Sub(x, y) == Add(x, Neg(y))
Mul(x, y) == Mk(x.n # y.n, MulMag(x.m, y.m))
\* Euclidean division: x = q*y + r with 0 <= r < |y|
DivE(x, y) == LET d == DivModMag(x.m, y.m) IN
              IF ~x.n THEN Mk(y.n, d.q)
              ELSE IF d.r = <<>> THEN Mk(~y.n, d.q) ELSE Mk(~y.n, AddMag(d.q, <<1>>))
ModE(x, y) == Sub(x, Mul(DivE(x, y), y))
Cmp(x, y) == IF x.n # y.n THEN (IF x.n THEN -1 ELSE 1) ELSE IF x.n THEN CmpMag(y.m, x.m) ELSE CmpMag(x.m, y.m)
IsOdd(x) == x.m # <<>> /\ x.m[1] % 2 = 1
RECURSIVE Pow2(_)
Pow2(k) == IF k = 0 THEN <<1>> ELSE MulSmall(Pow2(k - 1), 2)
I128Max == Mk(FALSE, SubMag(Pow2(127), <<1>>))
I128Min == Mk(TRUE, Pow2(127))
U128Max == Mk(FALSE, SubMag(Pow2(128), <<1>>))
FitsI128(x) == Cmp(x, I128Min) >= 0 /\ Cmp(x, I128Max) <= 0
\* x ** e for a small non-negative exponent, stopping as soon as the magnitude leaves 2^128 (then: does not fit)
RECURSIVE PowCap(_, _, _)
PowCap(x, e, acc) == IF e = 0 THEN [fits |-> TRUE, v |-> acc]
                     ELSE LET nxt == Mul(acc, x) IN
                          IF CmpMag(nxt.m, Pow2(128)) > 0 THEN [fits |-> FALSE, v |-> Zero] ELSE PowCap(x, e - 1, nxt)
=============================================================================
