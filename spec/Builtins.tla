------------------------------- MODULE Builtins -------------------------------
(***************************************************************************)
(* C16: contracts of the collection filters.  An element is an abstract    *)
(* record: kind, ord (its rank among elements of its kind), cls (its class *)
(* under ==), and for maps the value of attribute `k`:                     *)
(*   key = [has |-> FALSE]                       the map has no attribute k *)
(*   key = [has |-> TRUE, kind, ord]             kind "none" = k is none    *)
(* The harness maps each abstract element to a concrete value.             *)
(***************************************************************************)
EXTENDS Integers, Sequences, FiniteSets, TLC
NoKey == [has |-> FALSE, kind |-> "", ord |-> 0]
K(kind, ord) == [has |-> TRUE, kind |-> kind, ord |-> ord]
El(id, kind, ord, cls, key) == [id |-> id, kind |-> kind, ord |-> ord, cls |-> cls, key |-> key, items |-> <<>>]
\* an array element with explicit scalar members <<[kind, ord]>> (arrays compare member-wise, then by length)
ArrEl(id, cls, items) == [id |-> id, kind |-> "arr", ord |-> 0, cls |-> cls, key |-> NoKey, items |-> items]
Sc(kind, ord) == [kind |-> kind, ord |-> ord]
Ok(s) == [r |-> "ok", out |-> s]
Err == [r |-> "err", out |-> <<>>]
Unspec == [r |-> "unspec", out |-> <<>>]
\* which kinds have an order: numbers among numbers, strings among strings, bools among bools (false before true),
\* arrays among arrays (element-wise)
\* ("arr": arrays of mutually comparable elements; "xarr": arrays holding incomparable elements, which compare only
\* with an identical array — rank is then an identity; maps never compare)
Orderable == {"int", "str", "arr", "bool"}
Cmpb(k1, r1, k2, r2) == k1 = k2 /\ (k1 \in Orderable \/ (k1 = "xarr" /\ r1 = r2))
Comparable(a, b) == Cmpb(a.kind, a.ord, b.kind, b.ord)
\* the partial order of values: -1, 0, 1, or 2 = not comparable.  Scalars of one orderable kind by rank; arrays member by
\* member (an incomparable pair of members makes the arrays incomparable), then by length; maps never; mixed kinds never
Sign(n) == IF n < 0 THEN -1 ELSE IF n > 0 THEN 1 ELSE 0
ScalarCmp(a, b) == IF a.kind # b.kind \/ a.kind \notin {"int", "str", "bool"} THEN 2 ELSE Sign(a.ord - b.ord)
RECURSIVE LexCmp(_, _)
LexCmp(s, t) == IF s = <<>> /\ t = <<>> THEN 0 ELSE IF s = <<>> THEN -1 ELSE IF t = <<>> THEN 1
                ELSE LET c == ScalarCmp(s[1], t[1]) IN IF c # 0 THEN c ELSE LexCmp(Tail(s), Tail(t))
ElCmp(a, b) == IF a.kind = "arr" /\ b.kind = "arr" THEN LexCmp(a.items, b.items)
               ELSE IF a.kind = b.kind /\ a.kind \in {"int", "str", "bool"} THEN Sign(a.ord - b.ord) ELSE 2
KeyCmp(a, b) == ScalarCmp(a.key, b.key)
\* stable insertion sort by a comparator (x goes before the first later element it is not greater than... kept stable:
\* inserting from the right, x goes BEFORE elements it is <= to)
RECURSIVE SortC(_, _)
InsC(C(_, _), s, x) == LET RECURSIVE Ins(_) Ins(t) == IF t = <<>> THEN <<x>> ELSE IF C(x, Head(t)) <= 0 THEN <<x>> \o t ELSE <<Head(t)>> \o Ins(Tail(t)) IN Ins(s)
SortC(C(_, _), xs) == IF xs = <<>> THEN <<>> ELSE InsC(C, SortC(C, Tail(xs)), Head(xs))
NonNone(xs) == SelectSeq(xs, LAMBDA x : x.kind # "none")
\* stable insertion sort of positions by a rank function
RECURSIVE InsertBy(_, _, _)
InsertBy(Rank(_), s, x) == IF s = <<>> THEN <<x>> ELSE IF Rank(x) < Rank(Head(s)) THEN <<x>> \o s ELSE <<Head(s)>> \o InsertBy(Rank, Tail(s), x)
RECURSIVE StableSortBy(_, _)
\* inserting from the right keeps equal elements in input order (x goes BEFORE later equal elements: use <=)
InsertLeft(Rank(_), s, x) == LET RECURSIVE Ins(_) Ins(t) == IF t = <<>> THEN <<x>> ELSE IF Rank(x) <= Rank(Head(t)) THEN <<x>> \o t ELSE <<Head(t)>> \o Ins(Tail(t)) IN Ins(s)
StableSortBy(Rank(_), xs) == IF xs = <<>> THEN <<>> ELSE InsertLeft(Rank, StableSortBy(Rank, Tail(xs)), Head(xs))
\* `sort`: a permutation in non-decreasing order, input order kept among equals; refuses mutually incomparable inputs
\* none values are tolerated (their position in the result is not demanded: r = "ok-nn" carries the non-none part), but
\* the other values must still be mutually comparable
Sort(xs) ==
  LET nn == NonNone(xs) IN
  IF Len(xs) <= 1 THEN Ok(xs)
  ELSE IF \E i, j \in 1..Len(nn) : i # j /\ ElCmp(nn[i], nn[j]) = 2 THEN Err
  ELSE IF Len(nn) < Len(xs) THEN [r |-> "ok-nn", out |-> SortC(ElCmp, nn)]
  ELSE Ok(SortC(ElCmp, xs))
\* `sort(attribute="k")`: every element needs the attribute; keys must be mutually comparable
SortByKey(xs) ==
  IF xs = <<>> THEN Ok(xs)
  ELSE IF \E i \in 1..Len(xs) : xs[i].kind = "none" THEN Unspec          \* an element that is none: not demanded
  ELSE IF \E i \in 1..Len(xs) : ~xs[i].key.has THEN Err
  ELSE LET kk == SelectSeq(xs, LAMBDA x : x.key.kind # "none") IN
       IF Len(xs) = 1 THEN Ok(xs)
       ELSE IF \E i, j \in 1..Len(kk) : i # j /\ KeyCmp(kk[i], kk[j]) = 2 THEN Err
       ELSE IF Len(kk) < Len(xs) THEN [r |-> "ok-nn", out |-> SortC(KeyCmp, kk)]
       ELSE Ok(SortC(KeyCmp, xs))
\* `unique`: in first-occurrence order, exactly one representative of every class of equal elements
RECURSIVE Unique(_, _)
Unique(xs, seen) == IF xs = <<>> THEN <<>> ELSE IF Head(xs).cls \in seen THEN Unique(Tail(xs), seen) ELSE <<Head(xs)>> \o Unique(Tail(xs), seen \cup {Head(xs).cls})
\* `group_by(attribute="k")`: the elements whose attribute is present and not none, grouped by it, input order kept inside
\* a group; an element without the attribute: the documentation and the migration guide disagree (error / discarded)
GroupKeys(xs) == {<<xs[i].key.kind, xs[i].key.ord>> : i \in {j \in 1..Len(xs) : xs[j].key.has /\ xs[j].key.kind # "none"}}
Group(xs, gk) == LET RECURSIVE G(_) G(s) == IF s = <<>> THEN <<>> ELSE IF Head(s).key.has /\ <<Head(s).key.kind, Head(s).key.ord>> = gk THEN <<Head(s)>> \o G(Tail(s)) ELSE G(Tail(s)) IN G(xs)
GroupByOk(xs) == \A i \in 1..Len(xs) : xs[i].key.has
Reverse(xs) == [i \in 1..Len(xs) |-> xs[Len(xs) + 1 - i]]

\* ---- contracts on OBSERVED (input, output) pairs, for arrays far longer than the enumerated ones.
\* positions: out is a sequence of input positions.
IsPermutation(n, out) == Len(out) = n /\ \A p \in 1..n : \E i \in 1..n : out[i] = p
SortedStable(rank, out) == \A i \in 1..(Len(out) - 1) : rank[out[i]] < rank[out[i + 1]] \/ (rank[out[i]] = rank[out[i + 1]] /\ out[i] < out[i + 1])
\* kinds: kind of each key; the sort must be refused iff two keys are not mutually comparable
AllComparable(kinds, rank) == \A i, j \in 1..Len(kinds) : Cmpb(kinds[i], rank[i], kinds[j], rank[j])
UniqueContract(cls, out) == /\ \A i \in 1..(Len(out) - 1) : out[i] < out[i + 1]
                            /\ \A p \in 1..Len(cls) : (\E i \in 1..Len(out) : out[i] = p) <=> (\A q \in 1..(p - 1) : cls[q] # cls[p])
=============================================================================
