--------------------------------- MODULE Codecs ---------------------------------
(***************************************************************************)
(* C20: the tera-contrib codecs are lossless and emit only their target    *)
(* alphabet.  Laws over RECORDED calls; text travels as sequences of code   *)
(* points (ints), bytes as sequences of ints 0..255.                        *)
(***************************************************************************)
EXTENDS Integers, Sequences, FiniteSets, TLC
Upper == 65..90
Lower == 97..122
Digit == 48..57
AlNum == Upper \cup Lower \cup Digit
\* ---- base64 (RFC 4648): alphabet per option, `=` only as a suffix of the right length, length law, round trip
B64Alphabet(urlsafe) == AlNum \cup (IF urlsafe THEN {45, 95} ELSE {43, 47})      \* - _   /   + /
RECURSIVE StripPad(_)
StripPad(s) == IF s # <<>> /\ s[Len(s)] = 61 THEN StripPad(SubSeq(s, 1, Len(s) - 1)) ELSE s
Ceil(a, b) == (a + b - 1) \div b
B64Ok(o) ==
  LET body == StripPad(o.enc) pad == Len(o.enc) - Len(body) n == Len(o.utf8) IN
  /\ \A i \in 1..Len(body) : body[i] \in B64Alphabet(o.urlsafe)
  /\ Len(body) = Ceil(4 * n, 3)
  /\ pad = (IF o.padded THEN 4 * Ceil(n, 3) - Len(body) ELSE 0)
  /\ o.decok /\ o.dec = o.s                                         \* decoding the encoding gives the string back
  /\ ~o.badok                                                       \* a character outside the alphabet is refused
  /\ ~o.ncok                                                        \* so is a text no encoder produces (left-over bits set in the last symbol)
\* ---- percent encoding: only unreserved characters (and `/` unless strict) and %XX; decoding gives the UTF-8 bytes back
Unreserved == AlNum \cup {45, 46, 95, 126}                         \* - . _ ~
Hex(c) == IF c \in Digit THEN c - 48 ELSE IF c \in 65..70 THEN c - 55 ELSE IF c \in 97..102 THEN c - 87 ELSE -1
RECURSIVE PctDecode(_)
PctDecode(s) == IF s = <<>> THEN <<>>
                ELSE IF s[1] = 37 THEN (IF Len(s) >= 3 /\ Hex(s[2]) >= 0 /\ Hex(s[3]) >= 0 THEN <<16 * Hex(s[2]) + Hex(s[3])>> \o PctDecode(SubSeq(s, 4, Len(s))) ELSE <<-1>>)
                ELSE <<s[1]>> \o PctDecode(Tail(s))
UrlOk(o) == /\ \A i \in 1..Len(o.enc) : o.enc[i] \in Unreserved \cup {37} \cup (IF o.strict THEN {} ELSE {47})
            /\ PctDecode(o.enc) = o.utf8
\* ---- slug: lowercase ASCII letters, digits and single interior hyphens
SlugOk(o) == /\ \A i \in 1..Len(o.enc) : o.enc[i] \in Lower \cup Digit \cup {45}
             /\ (o.enc # <<>> => o.enc[1] # 45 /\ o.enc[Len(o.enc)] # 45)
             /\ \A i \in 1..(Len(o.enc) - 1) : ~(o.enc[i] = 45 /\ o.enc[i + 1] = 45)
\* ---- JSON: a recogniser / decoder over code points; trees:
\* [t |-> "null"] [t |-> "bool", b] [t |-> "num", d (the characters of the literal)] [t |-> "str", s] [t |-> "arr", xs] [t |-> "obj", ks, vs]
WS == {32, 9, 10, 13}
Bad(i) == [ok |-> FALSE, v |-> [t |-> "null"], i |-> i]
Good(v, i) == [ok |-> TRUE, v |-> v, i |-> i]
RECURSIVE Skip(_, _)
Skip(s, i) == IF i <= Len(s) /\ s[i] \in WS THEN Skip(s, i + 1) ELSE i
Starts(s, i, lit) == i + Len(lit) - 1 <= Len(s) /\ SubSeq(s, i, i + Len(lit) - 1) = lit
RECURSIVE NumEnd(_, _)
NumEnd(s, i) == IF i <= Len(s) /\ s[i] \in Digit \cup {43, 45, 46, 69, 101} THEN NumEnd(s, i + 1) ELSE i
Hex4(s, i) == IF i + 3 <= Len(s) /\ \A k \in 0..3 : Hex(s[i + k]) >= 0 THEN 4096 * Hex(s[i]) + 256 * Hex(s[i + 1]) + 16 * Hex(s[i + 2]) + Hex(s[i + 3]) ELSE -1
RECURSIVE StrBody(_, _, _)
\* i is just after the opening quote; returns the decoded code points and the index after the closing quote
StrBody(s, i, acc) ==
  IF i > Len(s) THEN Bad(i)
  ELSE IF s[i] = 34 THEN Good([t |-> "str", s |-> acc], i + 1)
  ELSE IF s[i] < 32 THEN Bad(i)                                  \* control characters must be escaped
  ELSE IF s[i] # 92 THEN StrBody(s, i + 1, Append(acc, s[i]))
  ELSE IF i + 1 > Len(s) THEN Bad(i)
  ELSE LET c == s[i + 1] IN
       CASE c = 34 -> StrBody(s, i + 2, Append(acc, 34)) [] c = 92 -> StrBody(s, i + 2, Append(acc, 92)) [] c = 47 -> StrBody(s, i + 2, Append(acc, 47))
         [] c = 98 -> StrBody(s, i + 2, Append(acc, 8)) [] c = 102 -> StrBody(s, i + 2, Append(acc, 12)) [] c = 110 -> StrBody(s, i + 2, Append(acc, 10))
         [] c = 114 -> StrBody(s, i + 2, Append(acc, 13)) [] c = 116 -> StrBody(s, i + 2, Append(acc, 9))
         [] c = 117 -> LET h == Hex4(s, i + 2) IN
                       IF h < 0 THEN Bad(i)
                       ELSE IF h >= 55296 /\ h <= 56319 /\ Starts(s, i + 6, <<92, 117>>) /\ Hex4(s, i + 8) >= 56320
                         THEN StrBody(s, i + 12, Append(acc, 65536 + (h - 55296) * 1024 + (Hex4(s, i + 8) - 56320)))
                       ELSE StrBody(s, i + 6, Append(acc, h))
         [] OTHER -> Bad(i)
RECURSIVE Val(_, _), Arr(_, _, _), Obj(_, _, _, _)
Val(s, i0) ==
  LET i == Skip(s, i0) IN
  IF i > Len(s) THEN Bad(i)
  ELSE IF Starts(s, i, <<110, 117, 108, 108>>) THEN Good([t |-> "null"], i + 4)
  ELSE IF Starts(s, i, <<116, 114, 117, 101>>) THEN Good([t |-> "bool", b |-> TRUE], i + 4)
  ELSE IF Starts(s, i, <<102, 97, 108, 115, 101>>) THEN Good([t |-> "bool", b |-> FALSE], i + 5)
  ELSE IF s[i] = 34 THEN StrBody(s, i + 1, <<>>)
  ELSE IF s[i] \in Digit \cup {45} THEN LET e == NumEnd(s, i) IN Good([t |-> "num", d |-> SubSeq(s, i, e - 1)], e)
  ELSE IF s[i] = 91 THEN (LET j == Skip(s, i + 1) IN IF j <= Len(s) /\ s[j] = 93 THEN Good([t |-> "arr", xs |-> <<>>], j + 1) ELSE Arr(s, i + 1, <<>>))
  ELSE IF s[i] = 123 THEN (LET j == Skip(s, i + 1) IN IF j <= Len(s) /\ s[j] = 125 THEN Good([t |-> "obj", ks |-> <<>>, vs |-> <<>>], j + 1) ELSE Obj(s, i + 1, <<>>, <<>>))
  ELSE Bad(i)
Arr(s, i, acc) ==
  LET x == Val(s, i) IN
  IF ~x.ok THEN x
  ELSE LET j == Skip(s, x.i) IN
       IF j > Len(s) THEN Bad(j)
       ELSE IF s[j] = 44 THEN Arr(s, j + 1, Append(acc, x.v))
       ELSE IF s[j] = 93 THEN Good([t |-> "arr", xs |-> Append(acc, x.v)], j + 1)
       ELSE Bad(j)
Obj(s, i0, ks, vs) ==
  LET i == Skip(s, i0) IN
  IF i > Len(s) \/ s[i] # 34 THEN Bad(i)
  ELSE LET k == StrBody(s, i + 1, <<>>) IN
       IF ~k.ok THEN k
       ELSE LET c == Skip(s, k.i) IN
            IF c > Len(s) \/ s[c] # 58 THEN Bad(c)
            ELSE LET x == Val(s, c + 1) IN
                 IF ~x.ok THEN x
                 ELSE LET j == Skip(s, x.i) IN
                      IF j > Len(s) THEN Bad(j)
                      ELSE IF s[j] = 44 THEN Obj(s, j + 1, Append(ks, k.v.s), Append(vs, x.v))
                      ELSE IF s[j] = 125 THEN Good([t |-> "obj", ks |-> Append(ks, k.v.s), vs |-> Append(vs, x.v)], j + 1)
                      ELSE Bad(j)
ParseJson(s) == LET x == Val(s, 1) IN IF x.ok /\ Skip(s, x.i) = Len(s) + 1 THEN x ELSE Bad(0)
\* same data: numbers by their literal when integers (float formatting is not demanded), objects regardless of entry order
RECURSIVE SameTree(_, _)
SameTree(a, b) ==
  /\ a.t = b.t
  /\ CASE a.t = "null" -> TRUE [] a.t = "bool" -> a.b = b.b
       [] a.t = "num" -> (b.float \/ a.d = b.d)
       [] a.t = "str" -> a.s = b.s
       [] a.t = "arr" -> Len(a.xs) = Len(b.xs) /\ \A i \in 1..Len(a.xs) : SameTree(a.xs[i], b.xs[i])
       [] a.t = "obj" -> Len(a.ks) = Len(b.ks) /\ \A i \in 1..Len(a.ks) : \E j \in 1..Len(b.ks) : a.ks[i] = b.ks[j] /\ SameTree(a.vs[i], b.vs[j])
JsonOk(o) == LET p == ParseJson(o.enc) IN p.ok /\ SameTree(p.v, o.tree)
=============================================================================
