------------------------------ MODULE Components ------------------------------
(***************************************************************************)
(* C05: a component call binds exactly the declared parameters (supplied   *)
(* value, else the declared default), collects undeclared arguments into   *)
(* the rest map when one is declared and rejects them otherwise, rejects a *)
(* missing required argument and a value that does not match the declared  *)
(* or inferred type, and NOTHING ELSE is visible in the body.              *)
(*                                                                         *)
(* sig  = [ps |-> <<param>>, rest |-> BOOLEAN]                              *)
(* param = [n, typ ("" | "string" | "integer" | "number"), def ("none" | "s" | "i")]  *)
(* call = function from argument names to the KIND of the supplied value   *)
(*        ("str" | "int" | "float" | "arr"), "-" = not supplied            *)
(***************************************************************************)
EXTENDS Integers, Sequences, FiniteSets, TLC
ArgNames == {"p", "q", "z"}
Kinds == {"str", "int", "float", "arr"}
\* a type is declared, or inferred from the default value when there is one
TypeOf(pr) == IF pr.typ # "" THEN pr.typ ELSE IF pr.def = "s" THEN "string" ELSE IF pr.def = "i" THEN "integer" ELSE ""
\* ---- the full table of declared (or inferred) types against value kinds: the eight types of the language, ten kinds
AllTypes == {"string", "bool", "integer", "float", "number", "array", "map", "bytes"}
AllKinds == {"str", "safe-str", "i64", "u64", "i128", "u128", "float", "bool", "arr", "map", "bytes"}
TypeAccepts(ty, k) == CASE ty = "string" -> k \in {"str", "safe-str"} [] ty = "bool" -> k = "bool" [] ty = "integer" -> k \in {"i64", "u64", "i128", "u128"}
                        [] ty = "float" -> k = "float" [] ty = "number" -> k \in {"i64", "u64", "i128", "u128", "float"}
                        [] ty = "array" -> k = "arr" [] ty = "map" -> k = "map" [] ty = "bytes" -> k = "bytes"
\* the type a default value implies when none is declared (a default of none implies nothing)
InferredFrom(defkind) == CASE defkind = "str" -> "string" [] defkind = "int" -> "integer" [] defkind = "float" -> "float" [] defkind = "bool" -> "bool"
                           [] defkind = "arr" -> "array" [] defkind = "map" -> "map" [] OTHER -> ""
Matches(ty, k) == \/ ty = "" \/ (ty = "string" /\ k = "str") \/ (ty = "integer" /\ k = "int") \/ (ty = "number" /\ k \in {"int", "float"})
Names(sig) == {sig.ps[i].n : i \in 1..Len(sig.ps)}
Supplied(call) == {a \in ArgNames : call[a] # "-"}
Param(sig, n) == sig.ps[CHOOSE i \in 1..Len(sig.ps) : sig.ps[i].n = n]
\* the outcome: "ok" with the environment the body sees, or the classes of refusal that apply
Errors(sig, call) ==
  (IF ~sig.rest /\ Supplied(call) \ Names(sig) # {} THEN {"unknown-argument"} ELSE {})
  \cup (IF \E n \in Names(sig) : call[n] = "-" /\ Param(sig, n).def = "none" THEN {"missing-argument"} ELSE {})
  \cup (IF \E n \in Names(sig) : call[n] # "-" /\ ~Matches(TypeOf(Param(sig, n)), call[n]) THEN {"type-mismatch"} ELSE {})
\* environment: declared parameter -> "val:<kind>" (supplied) | "def:<default>"; rest -> the set of collected names
Env(sig, call) == [params |-> [n \in Names(sig) |-> IF call[n] # "-" THEN "val:" \o call[n] ELSE "def:" \o Param(sig, n).def],
                   rest |-> IF sig.rest THEN Supplied(call) \ Names(sig) ELSE {},
                   hasrest |-> sig.rest]
Bind(sig, call) == IF Errors(sig, call) = {} THEN [r |-> "ok", env |-> Env(sig, call), errs |-> {}]
                   ELSE [r |-> "err", env |-> Env(sig, call), errs |-> Errors(sig, call)]
\* laws: the environment holds exactly the declared parameters; everything supplied is accounted for
ExactlyDeclared(sig, call) == DOMAIN Env(sig, call).params = Names(sig)
NothingLost(sig, call) == Errors(sig, call) = {} => Supplied(call) \subseteq (Names(sig) \cup Env(sig, call).rest)
\* ---- priority among several definitions of one component.  Definitions are listed in the lexicographic order of their
\* template names (the order in which registration walks them); v[i] is -1 (absent), 0 (a template name without a
\* fallback prefix: best priority) or a rank 1, 2, 3 (position of its prefix in the list of fallback prefixes).
\* The highest-priority definition is used; two definitions of the best priority present are a conflict.
Ranks == {1, 2, 3}
Present(v) == {i \in DOMAIN v : v[i] # -1}
Exact(v) == {i \in DOMAIN v : v[i] = 0}
PrioOutcome(v) ==
  IF Cardinality(Exact(v)) >= 2 THEN [r |-> "conflict", owner |-> 0]
  ELSE [r |-> "ok", owner |-> CHOOSE i \in Present(v) : \A j \in Present(v) : v[i] <= v[j]]
PrioVectors == {v \in [1..3 -> -1..3] : Present(v) # {} /\ \A i, j \in Present(v) : (i # j /\ v[i] \in Ranks) => v[i] # v[j]}
=============================================================================
