-------------------------------- MODULE Expr --------------------------------
(***************************************************************************)
(* C02: expressions follow the documented operators, precedence and        *)
(* undefined rules.                                                        *)
(*                                                                         *)
(* Prec is the binding-power table of docs/content/_index.md ("Operator    *)
(* precedence"), lowest first; every binary row is left-associative except *)
(* `**` (Python/Jinja2 convention, which the documentation defers to).     *)
(* Unp(e) prints an AST as a token sequence with the MINIMAL parentheses   *)
(* that table requires, UnpFull(e) with all of them; Eval(e, val) is the   *)
(* reference evaluator and also returns the left-to-right LOG of the       *)
(* leaves it evaluated (leaves are printed as probe calls, which makes     *)
(* evaluation order, short-circuiting and ternary laziness observable).    *)
(***************************************************************************)
EXTENDS Integers, Sequences, FiniteSets, TLC

Prec(o) == CASE o = "or" -> 1 [] o = "and" -> 2 [] o = "not" -> 3
             [] o \in {"in", "notin", "is_defined", "isnot_defined", "is_odd", "isnot_odd"} -> 4
             [] o \in {"==", "!=", "<", "<=", ">", ">="} -> 5
             [] o \in {"+", "-"} -> 6
             [] o \in {"*", "/", "//", "%", "~"} -> 7
             [] o = "**" -> 8
             [] o \in {"f_abs", "f_length"} -> 9           \* `| filter`
             [] o = "neg" -> 10
             [] o \in {"attr", "sub", "attr_opt", "sub_opt"} -> 11
RightAssoc(o) == o = "**"
Prefix == {"not", "neg"}
Postfix == {"is_defined", "isnot_defined", "is_odd", "isnot_odd", "f_abs", "f_length", "attr", "sub", "attr_opt", "sub_opt"}

Lit(i) == [k |-> "lit", i |-> i]
Var(n) == [k |-> "var", n |-> n]
Cst(v) == [k |-> "cst", v |-> v]                  \* a literal of the template
Bin(o, l, r) == [k |-> "bin", o |-> o, l |-> l, r |-> r]
Un(o, e) == [k |-> "un", o |-> o, e |-> e]
Tern(c, a, b) == [k |-> "tern", c |-> c, a |-> a, b |-> b]

\* ------------------------------------------------------------------ values
I(n) == [t |-> "int", v |-> n]
Bo(b) == [t |-> "bool", v |-> b]
St(s) == [t |-> "str", v |-> s]                   \* sequence of one-character strings
Ar(xs) == [t |-> "arr", v |-> xs]
Fl(n, d) == [t |-> "flt", v |-> <<n, d>>]          \* exact rational n/d, d > 0, lowest terms: the result of `/`
Mp(ks, vs) == [t |-> "map", v |-> <<ks, vs>>]
Undef == [t |-> "undef", v |-> 0]
NoneV == [t |-> "none", v |-> 0]
Truthy(x) == CASE x.t = "int" -> x.v # 0 [] x.t = "bool" -> x.v [] x.t = "str" -> x.v # <<>> [] x.t = "arr" -> x.v # <<>>
               [] x.t = "flt" -> x.v[1] # 0 [] x.t = "map" -> x.v[1] # <<>> [] OTHER -> FALSE
RECURSIVE Gcd(_, _)
Gcd(a, b) == IF b = 0 THEN a ELSE Gcd(b, a % b)
Abs(n) == IF n < 0 THEN -n ELSE n
MkFl(n, d) == LET g == Gcd(Abs(n), Abs(d)) s == IF d < 0 THEN -1 ELSE 1 IN Fl(s * (n \div g), s * (d \div g))
\* powers are capped WHILE they are computed (TLC's integers are 32-bit; an overflow is a TLC error, not a wrap-around)
RECURSIVE PowI(_, _)
PowI(a, b) == IF b = 0 THEN 1 ELSE LET r == PowI(a, b - 1) IN IF r > 40000 \/ r < -40000 THEN 50000 ELSE a * r
DivE(a, b) == IF b > 0 THEN (IF a >= 0 THEN a \div b ELSE -((-a + b - 1) \div b))
              ELSE -(IF a >= 0 THEN a \div (-b) ELSE -((-a + (-b) - 1) \div (-b)))
Big(n) == n > 40000 \/ n < -40000
\* code points of the characters that can occur in compared strings
CharOrd(c) == CASE c = "-" -> 45 [] c = "D" -> 68 [] c = "a" -> 97 [] c = "b" -> 98 [] c = "c" -> 99
                [] \E i \in 1..10 : <<"0", "1", "2", "3", "4", "5", "6", "7", "8", "9">>[i] = c
                     -> 47 + (CHOOSE i \in 1..10 : <<"0", "1", "2", "3", "4", "5", "6", "7", "8", "9">>[i] = c)
                [] OTHER -> 200
RECURSIVE SeqLt(_, _)
SeqLt(a, b) == IF b = <<>> THEN FALSE ELSE IF a = <<>> THEN TRUE
               ELSE IF a[1] # b[1] THEN CharOrd(a[1]) < CharOrd(b[1]) ELSE SeqLt(Tail(a), Tail(b))
IsNum(x) == x.t \in {"int", "flt"}
Num(x) == IF x.t = "int" THEN <<x.v, 1>> ELSE x.v
NumCmp(a, b) == LET x == Num(a) y == Num(b) l == x[1] * y[2] r == y[1] * x[2] IN IF l < r THEN -1 ELSE IF l = r THEN 0 ELSE 1
RECURSIVE ValEq(_, _)
ValEq(a, b) == IF IsNum(a) /\ IsNum(b) THEN NumCmp(a, b) = 0
               ELSE IF a.t = "arr" /\ b.t = "arr" THEN Len(a.v) = Len(b.v) /\ \A i \in 1..Len(a.v) : ValEq(a.v[i], b.v[i])
               ELSE a.t = b.t /\ a.v = b.v

Ok(v) == [r |-> "ok", v |-> v]
Err == [r |-> "err", v |-> Undef]
Unspec == [r |-> "unspec", v |-> Undef]
RECURSIVE IsSub(_, _)
IsSub(a, b) == IF Len(a) > Len(b) THEN FALSE ELSE IF SubSeq(b, 1, Len(a)) = a THEN TRUE ELSE IsSub(a, Tail(b))
DigitCh == <<"0", "1", "2", "3", "4", "5", "6", "7", "8", "9">>
RECURSIVE Dig(_)
Dig(n) == IF n < 10 THEN <<DigitCh[n + 1]>> ELSE Dig(n \div 10) \o <<DigitCh[(n % 10) + 1]>>
IntStr(n) == IF n < 0 THEN <<"-">> \o Dig(-n) ELSE Dig(n)

Apply(o, a, b) ==
  CASE o \in {"+", "-", "*", "//", "%", "**"} ->
         IF ~IsNum(a) \/ ~IsNum(b) THEN Err                         \* unsupported operand types fail, no coercion
         ELSE IF a.t = "flt" \/ b.t = "flt" THEN Unspec             \* float arithmetic: outside the reference (C13)
         ELSE IF o \in {"//", "%"} /\ b.v = 0 THEN Err
         ELSE IF o = "**" /\ (b.v < 0 \/ b.v > 12 \/ Big(a.v)) THEN Unspec
         ELSE IF Big(a.v) \/ Big(b.v) THEN Unspec
         ELSE LET r == CASE o = "+" -> a.v + b.v [] o = "-" -> a.v - b.v [] o = "*" -> a.v * b.v
                         [] o = "//" -> DivE(a.v, b.v) [] o = "%" -> a.v - DivE(a.v, b.v) * b.v
                         [] o = "**" -> PowI(a.v, b.v)
              IN IF Big(r) THEN Unspec ELSE Ok(I(r))
    [] o = "/" -> IF ~IsNum(a) \/ ~IsNum(b) THEN Err
                  ELSE IF a.t = "flt" \/ b.t = "flt" THEN Unspec
                  ELSE IF b.v = 0 THEN Err ELSE IF Big(a.v) \/ Big(b.v) THEN Unspec ELSE Ok(MkFl(a.v, b.v))
    [] o = "==" -> IF a.t = "undef" \/ b.t = "undef" THEN Unspec ELSE Ok(Bo(ValEq(a, b)))
    [] o = "!=" -> IF a.t = "undef" \/ b.t = "undef" THEN Unspec ELSE Ok(Bo(~ValEq(a, b)))
    [] o \in {"<", "<=", ">", ">="} ->
         IF IsNum(a) /\ IsNum(b) THEN LET c == NumCmp(a, b) IN
              Ok(Bo(CASE o = "<" -> c < 0 [] o = "<=" -> c <= 0 [] o = ">" -> c > 0 [] o = ">=" -> c >= 0))
         ELSE IF a.t = "str" /\ b.t = "str" THEN
              Ok(Bo(CASE o = "<" -> SeqLt(a.v, b.v) [] o = "<=" -> ~SeqLt(b.v, a.v) [] o = ">" -> SeqLt(b.v, a.v) [] o = ">=" -> ~SeqLt(a.v, b.v)))
         ELSE IF a.t = b.t THEN Unspec ELSE Err
    [] o = "~" -> IF a.t \in {"int", "str"} /\ b.t \in {"int", "str"}
                    THEN Ok(St((IF a.t = "int" THEN IntStr(a.v) ELSE a.v) \o (IF b.t = "int" THEN IntStr(b.v) ELSE b.v)))
                    ELSE Unspec
    [] o \in {"in", "notin"} ->
         IF a.t = "undef" THEN Unspec
         ELSE IF b.t = "arr" THEN Ok(Bo((o = "in") = (\E i \in 1..Len(b.v) : ValEq(b.v[i], a))))
         ELSE IF b.t = "str" THEN (IF a.t = "str" THEN Ok(Bo((o = "in") = IsSub(a.v, b.v))) ELSE Unspec)
         ELSE IF b.t = "map" THEN Unspec ELSE Err

Res(r, v, log) == [r |-> r, v |-> v, log |-> log]
Field(m, n) == IF \E i \in 1..Len(m.v[1]) : m.v[1][i] = n THEN m.v[2][CHOOSE i \in 1..Len(m.v[1]) : m.v[1][i] = n] ELSE Undef
\* val: leaf values (sequence); env: variable values (function; unbound names are absent)
RECURSIVE Eval(_, _, _)
Eval(e, val, env) ==
  CASE e.k = "lit" -> Res("ok", val[e.i], <<e.i>>)
    [] e.k = "var" -> Res("ok", IF e.n \in DOMAIN env THEN env[e.n] ELSE Undef, <<>>)
    [] e.k = "cst" -> Res("ok", e.v, <<>>)
    [] e.k = "un" ->
         LET x == Eval(e.e, val, env) IN
         IF x.r # "ok" THEN x
         ELSE LET R(y) == Res(y.r, y.v, x.log) v == x.v IN
          (CASE e.o = "not" -> R(Ok(Bo(~Truthy(v))))
             [] e.o = "neg" -> R(IF v.t = "int" THEN Ok(I(-v.v)) ELSE IF v.t = "flt" THEN Ok(Fl(-v.v[1], v.v[2])) ELSE Err)
             [] e.o = "is_defined" -> R(Ok(Bo(v.t # "undef")))
             [] e.o = "isnot_defined" -> R(Ok(Bo(v.t = "undef")))
             [] e.o \in {"is_odd", "isnot_odd"} -> R(IF v.t = "int" THEN Ok(Bo((e.o = "is_odd") = (v.v % 2 = 1))) ELSE Err)
             [] e.o = "f_abs" -> R(IF v.t = "int" THEN Ok(I(Abs(v.v))) ELSE IF v.t = "flt" THEN Ok(Fl(Abs(v.v[1]), v.v[2])) ELSE Err)
             [] e.o = "f_length" -> R(IF v.t \in {"str", "arr"} THEN Ok(I(Len(v.v))) ELSE IF v.t = "map" THEN Ok(I(Len(v.v[1]))) ELSE Err)
             \* exactly one level of undefined: a field of an undefined value is an error; a missing field is undefined
             [] e.o \in {"attr", "sub"} -> R(IF v.t = "undef" THEN Err ELSE IF v.t = "map" THEN Ok(Field(v, "a")) ELSE
                                             IF e.o = "attr" THEN Ok(Undef) ELSE Unspec)
             \* optional chaining: none / undefined bases give undefined instead of an error
             [] e.o \in {"attr_opt", "sub_opt"} -> R(IF v.t \in {"undef", "none"} THEN Ok(Undef) ELSE IF v.t = "map" THEN Ok(Field(v, "a")) ELSE
                                                     IF e.o = "attr_opt" THEN Ok(Undef) ELSE Unspec))
    [] e.k = "bin" /\ e.o \in {"and", "or"} ->
         \* left to right, stop at the deciding operand and yield it
         LET x == Eval(e.l, val, env) IN
         IF x.r # "ok" THEN x
         ELSE IF (e.o = "and") = Truthy(x.v) THEN LET y == Eval(e.r, val, env) IN Res(y.r, y.v, x.log \o y.log) ELSE x
    [] e.k = "bin" ->
         LET x == Eval(e.l, val, env) IN
         IF x.r = "err" THEN x
         ELSE LET y == Eval(e.r, val, env) log == x.log \o y.log IN
              IF y.r = "err" /\ x.r = "ok" THEN Res("err", Undef, log)
              ELSE IF x.r = "unspec" \/ y.r = "unspec" THEN Res("unspec", Undef, log)
              ELSE LET z == Apply(e.o, x.v, y.v) IN Res(z.r, z.v, log)
    [] e.k = "tern" ->
         \* the condition first, then only the branch taken
         LET c == Eval(e.c, val, env) IN
         IF c.r # "ok" THEN c
         ELSE LET y == Eval(IF Truthy(c.v) THEN e.a ELSE e.b, val, env) IN Res(y.r, y.v, c.log \o y.log)

\* ------------------------------------------------------------------ unparsing
PrecOf(e) == IF e.k \in {"lit", "var", "cst"} THEN 99 ELSE IF e.k = "tern" THEN 0 ELSE Prec(e.o)
Tok(o) == CASE o = "neg" -> <<"-">> [] o = "notin" -> <<"not", "in">> [] o = "is_defined" -> <<"is", "defined">>
            [] o = "isnot_defined" -> <<"is", "not", "defined">> [] o = "is_odd" -> <<"is", "odd">> [] o = "isnot_odd" -> <<"is", "not", "odd">>
            [] o = "f_abs" -> <<"|", "abs">> [] o = "f_length" -> <<"|", "length">>
            [] o = "attr" -> <<".a">> [] o = "attr_opt" -> <<"?.a">> [] o = "sub" -> <<"['a']">> [] o = "sub_opt" -> <<"?['a']">>
            [] OTHER -> <<o>>
RECURSIVE Unp(_)
Paren(e, need) == IF need THEN <<"(">> \o Unp(e) \o <<")">> ELSE Unp(e)
Leaf(e) == IF e.k = "lit" THEN <<[leaf |-> e.i]>> ELSE IF e.k = "var" THEN <<[var |-> e.n]>> ELSE <<[cst |-> e.v]>>
Unp(e) ==
  CASE e.k \in {"lit", "var", "cst"} -> Leaf(e)
    [] e.k = "un" /\ e.o \in Prefix -> Tok(e.o) \o Paren(e.e, PrecOf(e.e) < Prec(e.o) \/ (e.o = "neg" /\ e.e.k = "un" /\ e.e.o = "neg"))
    [] e.k = "un" -> Paren(e.e, PrecOf(e.e) < Prec(e.o)) \o Tok(e.o)
    [] e.k = "bin" ->
         Paren(e.l, PrecOf(e.l) < Prec(e.o) \/ (PrecOf(e.l) = Prec(e.o) /\ RightAssoc(e.o)))
         \o Tok(e.o) \o
         Paren(e.r, PrecOf(e.r) < Prec(e.o) \/ (PrecOf(e.r) = Prec(e.o) /\ ~RightAssoc(e.o)))
    [] e.k = "tern" -> Paren(e.a, PrecOf(e.a) < 1) \o <<"if">> \o Paren(e.c, PrecOf(e.c) < 1) \o <<"else">> \o Paren(e.b, PrecOf(e.b) < 1)
RECURSIVE UnpFull(_)
\* Well-formedness beyond the table: the grammar refuses a prefix operator directly as the right operand of `~`
RECURSIVE WF(_)
\* (`not in` and `is not` are negations too: the parser builds them as a `not` around `in` / `is`)
Negated(e) == (e.k = "un" /\ e.o \in Prefix \cup {"isnot_defined", "isnot_odd"}) \/ (e.k = "bin" /\ e.o = "notin")
WF(e) == CASE e.k = "bin" -> WF(e.l) /\ WF(e.r) /\ ~(e.o = "~" /\ Negated(e.r))
           [] e.k = "un" -> WF(e.e) [] e.k = "tern" -> WF(e.c) /\ WF(e.a) /\ WF(e.b) [] OTHER -> TRUE
UnpFull(e) == CASE e.k \in {"lit", "var", "cst"} -> Leaf(e)
                [] e.k = "un" /\ e.o \in Prefix -> <<"(">> \o Tok(e.o) \o UnpFull(e.e) \o <<")">>
                \* the grammar has no `(expr).a`: accesses are printed directly on their base (a name or another access)
                [] e.k = "un" /\ Prec(e.o) = 11 -> UnpFull(e.e) \o Tok(e.o)
                [] e.k = "un" -> <<"(">> \o UnpFull(e.e) \o Tok(e.o) \o <<")">>
                [] e.k = "bin" -> <<"(">> \o UnpFull(e.l) \o Tok(e.o) \o UnpFull(e.r) \o <<")">>
                [] e.k = "tern" -> <<"(">> \o UnpFull(e.a) \o <<"if">> \o UnpFull(e.c) \o <<"else">> \o UnpFull(e.b) \o <<")">>
=============================================================================
