------------------------------- MODULE Fusion -------------------------------
(***************************************************************************)
(* C09: the instruction-fusion pass (Chunk::optimize) preserves behaviour. *)
(*                                                                         *)
(* Two halves that compose to bisimilarity of every compiled program under *)
(* every context, without exploring any program:                           *)
(*  M1 ValidFusion(pre, post): the optimised listing is the original one   *)
(*     where only runs  LoadName, LoadAttr*, [WriteTop]  were merged into  *)
(*     LoadPath / WritePath, no merged run contains a jump target other    *)
(*     than at its head, every jump lands on the image of its old target,  *)
(*     spans are concatenated.  Evaluated on REAL listing pairs dumped     *)
(*     with the optimiser switch off / on.                                 *)
(*  M2 each merged group is locally equivalent: for every tuple of lookup  *)
(*     outcomes along the path the fused instruction has the same outcome  *)
(*     (error / pushed value / written value) as the sequence it replaces. *)
(***************************************************************************)
EXTENDS Integers, Sequences, FiniteSets, TLC

\* ------------------------------------------------------------------ M1
JumpOps == {"Jump", "PopJumpIfFalse", "JumpIfFalseOrPop", "JumpIfTrueOrPop", "Iterate"}
Size(ins) == IF ins.op = "LoadPath" THEN ins.n ELSE IF ins.op = "WritePath" THEN ins.n + 1 ELSE 1
RECURSIVE StartOf(_, _)
StartOf(post, j) == IF j = 1 THEN 1 ELSE StartOf(post, j - 1) + Size(post[j - 1])
\* image of pre-index i (1..Len(pre)+1) in post
ImageOf(post, i) ==
  LET js == {j \in 1..Len(post) : StartOf(post, j) <= i /\ i < StartOf(post, j) + Size(post[j])} IN
  IF js = {} THEN Len(post) + 1 ELSE CHOOSE j \in js : TRUE
RECURSIVE Concat(_, _, _)
Concat(pre, a, b) == IF a > b THEN <<>> ELSE pre[a].r \o Concat(pre, a + 1, b)

GroupOk(pre, post, j) ==
  LET s == StartOf(post, j)
      q == post[j] IN
  IF q.op \in {"LoadPath", "WritePath"} THEN
    LET n == q.n IN
    /\ s + Size(q) - 1 <= Len(pre)
    /\ pre[s].op = "LoadName" /\ pre[s].a = <<q.a[1]>>
    /\ \A k \in 2..n : pre[s + k - 1].op = "LoadAttr" /\ pre[s + k - 1].a = <<q.a[k]>>
    /\ (q.op = "WritePath" => pre[s + n].op = "WriteTop")
    /\ (q.op = "LoadPath" => n >= 2)
    /\ q.a[1] # "__tera_context"             \* the magic context dump is not a variable: never the head of a merged group
    /\ q.r = Concat(pre, s, s + n - 1)
  ELSE
    /\ s <= Len(pre)
    /\ pre[s].op = q.op /\ pre[s].r = q.r
    /\ IF q.op \in JumpOps THEN q.t = ImageOf(post, pre[s].t) ELSE pre[s].d = q.d

PreTargets(pre) == {pre[i].t : i \in {k \in 1..Len(pre) : pre[k].op \in JumpOps}}
ValidFusion(pre, post) ==
  /\ (IF post = <<>> THEN 1 ELSE StartOf(post, Len(post)) + Size(post[Len(post)])) = Len(pre) + 1
  /\ \A j \in 1..Len(post) : GroupOk(pre, post, j)
  \* no jump of the original lands inside a merged group (only on its first member)
  /\ \A t \in PreTargets(pre) : t >= 1 /\ t <= Len(pre) + 1
        /\ (t <= Len(pre) => StartOf(post, ImageOf(post, t)) = t)

\* ------------------------------------------------------------------ M2
\* what one lookup step can yield: a PRESENT value of some kind ("undef" = present but undefined,
\* as in {"a": nope}), or "missing" (name unbound / field absent)
AVL == {"undef", "none", "scalar", "str", "arr", "map"}
Look == AVL \cup {"missing"}
Err == [r |-> "err", v |-> ""]
AsVal(x) == IF x = "missing" THEN "undef" ELSE x
\* unfused: LoadName, LoadAttr*, [WriteTop]   (TeraVM: LoadName pushes the value or undefined;
\* LoadAttr errors on an undefined base, otherwise pushes the field or undefined; WriteTop errors on undefined)
RECURSIVE Attrs(_, _, _)
Attrs(cur, vs, i) ==
  IF i > Len(vs) THEN [r |-> "push", v |-> cur]
  ELSE IF cur = "undef" THEN Err
  ELSE Attrs(AsVal(vs[i]), vs, i + 1)
Unfused(vs, write) ==
  LET res == Attrs(AsVal(vs[1]), Tail(vs), 1) IN
  IF res.r = "err" \/ ~write THEN res
  ELSE IF res.v = "undef" THEN Err ELSE [r |-> "write", v |-> res.v]
\* fused LoadPath (interpreter.rs): root undefined -> error; walking: undefined base -> error;
\* missing field: error unless it is the last step, which yields undefined
RECURSIVE LP(_, _, _)
LP(cur, vs, i) ==
  IF i > Len(vs) THEN [r |-> "push", v |-> cur]
  ELSE IF cur = "undef" THEN Err
  ELSE IF vs[i] = "missing" THEN (IF i < Len(vs) THEN Err ELSE [r |-> "push", v |-> "undef"])
  ELSE LP(vs[i], vs, i + 1)
LoadPath(vs) == LET root == AsVal(vs[1]) attrs == Tail(vs) IN
                IF attrs # <<>> /\ root = "undef" THEN Err ELSE LP(root, attrs, 1)
\* fused WritePath.  WritePathChecksLeaf = FALSE is the pinned code (the resolved leaf is never tested
\* for undefined); TRUE is the repaired instruction.
CONSTANT WritePathChecksLeaf
RECURSIVE WP(_, _, _)
WP(cur, vs, i) == IF i > Len(vs) THEN [r |-> "write", v |-> cur]
                  ELSE IF vs[i] = "missing" THEN Err
                  ELSE WP(vs[i], vs, i + 1)
WritePath(vs) == LET root == AsVal(vs[1]) IN
                 IF root = "undef" THEN Err
                 ELSE LET res == WP(root, Tail(vs), 1) IN
                      IF WritePathChecksLeaf /\ res.r = "write" /\ res.v = "undef" THEN Err ELSE res
\* the engine finds fields only in maps: a lookup on anything else is "missing"
Consistent(vs) == \A i \in 2..Len(vs) : (AsVal(vs[i - 1]) # "map") => vs[i] = "missing"
Same(a, b) == a.r = b.r /\ (a.r = "err" \/ a.v = b.v)
=============================================================================
