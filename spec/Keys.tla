--------------------------------- MODULE Keys ---------------------------------
(***************************************************************************)
(* C15, second half: a map entry is found by m[k], m.k, `k in m`, `get` and *)
(* `containing` exactly when an equal key was inserted, whatever the        *)
(* integer width of the key, whether a string key is owned or borrowed,     *)
(* and however many entries the map has.                                    *)
(* A key is [c |-> class, e |-> encoding]; equality of keys is equality of  *)
(* classes (integers by value; strings by content; booleans).               *)
(***************************************************************************)
EXTENDS Integers, Sequences, FiniteSets, TLC
Key(c, e) == [c |-> c, e |-> e]
KeySet == {Key("i1", e) : e \in {"i64", "u64", "i128", "u128"}} \cup {Key("im1", e) : e \in {"i64", "i128"}} \cup {Key("i0", e) : e \in {"i64", "u64", "i128", "u128"}}
          \cup {Key("i2p64", e) : e \in {"u128", "i128"}} \cup {Key("sa", e) : e \in {"owned", "borrowed"}}
          \cup {Key("s1", "owned"), Key("bt", "bool")}
          \cup {Key("umax", "u128")}                   \* 2^128 - 1: only a u128 holds it
Found(ins, look) == \E q \in ins : q.c = look.c
\* which access paths apply to which lookup key
Paths(look) == {"sub", "in", "containing"} \cup (IF look.c \in {"sa", "s1"} THEN {"get"} ELSE {}) \cup (IF look.c = "sa" THEN {"attr"} ELSE {})
=============================================================================
