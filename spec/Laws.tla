--------------------------------- MODULE Laws ---------------------------------
(***************************************************************************)
(* C15: equality, ordering and key lookup are coherent across value kinds. *)
(* The relations are OBSERVED: the harness evaluates `==`, the partial      *)
(* order behind `<` and the total order behind sort/unique on every pair   *)
(* of a universe of values, through the public trait impls and through     *)
(* templates, and records the matrices.  The laws below are the statement  *)
(* of C15; TLC checks them over all pairs and triples of the universe.     *)
(*   eq[i][j]   : BOOLEAN            `==`                                   *)
(*   pc[i][j]   : -1, 0, 1, 2        partial order (2 = not comparable)     *)
(*   tc[i][j]   : -1, 0, 1           total order used by sort / unique      *)
(*   cls[i]     : the class of value i under "same data" (numbers by       *)
(*                mathematical value, strings ignoring the safe mark,      *)
(*                containers structurally), assigned when the universe is  *)
(*                built                                                    *)
(***************************************************************************)
EXTENDS Integers, Sequences, FiniteSets, TLC
EqReflexive(eq, i) == eq[i][i]
EqSymmetric(eq, i, j) == eq[i][j] = eq[j][i]
EqTransitive(eq, i, j, k) == eq[i][j] /\ eq[j][k] => eq[i][k]
EqIsSameData(eq, cls, i, j) == eq[i][j] <=> cls[i] = cls[j]
OrdAntisymmetric(tc, i, j) == tc[i][j] = -tc[j][i]
OrdTransitive(tc, i, j, k) == tc[i][j] <= 0 /\ tc[j][k] <= 0 => tc[i][k] <= 0
OrdEqualOnlyIfEq(tc, eq, i, j) == tc[i][j] = 0 <=> eq[i][j]
PartialAgrees(pc, tc, i, j) == pc[i][j] # 2 => pc[i][j] = tc[i][j]
\* template-level observations agree with the API-level ones: `a == b`, `a < b` (error when not comparable),
\* `[a, b] | unique | length` (1 iff equal)
TemplateAgrees(o, i, j) ==
  /\ o.teq[i][j] = (IF o.eq[i][j] THEN 1 ELSE 0)
  /\ o.tlt[i][j] = (IF o.pc[i][j] = 2 THEN 2 ELSE IF o.pc[i][j] < 0 THEN 1 ELSE 0)
  /\ o.tun[i][j] = (IF o.eq[i][j] THEN 1 ELSE 2)
=============================================================================
