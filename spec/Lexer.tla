-------------------------------- MODULE Lexer --------------------------------
(***************************************************************************)
(* C08: literal text is reproduced verbatim except whitespace next to `-`  *)
(* markers; comments produce nothing; raw bodies are verbatim.             *)
(*                                                                         *)
(* A source is a sequence of SEGMENTS:                                     *)
(*   text [l, c, t]      leading whitespace? non-blank core? trailing ws?  *)
(*                       (c = FALSE: a whitespace-only text, l = TRUE)     *)
(*   expr/tag/com [dl, dr]   `-` marker inside the left / right delimiter  *)
(*   raw [dl, il, ir, dr]    {%dl raw il%} ws core ws {%ir endraw dr%}     *)
(* Out(src) is written from the STATEMENT of C08 alone and returns the     *)
(* surviving parts <<segment index, part>> in order.  Filt(src) is a       *)
(* small-step model in the shape of the code's whitespace filter (a trim   *)
(* flag carried from one token to the next); TLC checks Filt = Out.        *)
(***************************************************************************)
EXTENDS Integers, Sequences, FiniteSets, TLC
Texts == {[k |-> "text", l |-> a, c |-> TRUE, t |-> d] : a, d \in BOOLEAN} \cup {[k |-> "text", l |-> TRUE, c |-> FALSE, t |-> FALSE]}
Delim(kk) == {[k |-> kk, dl |-> a, dr |-> b] : a, b \in BOOLEAN}
Raws == {[k |-> "raw", dl |-> a, dr |-> b, il |-> c, ir |-> d] : a, b, c, d \in BOOLEAN}
Segs == Texts \cup Delim("expr") \cup Delim("tag") \cup Delim("com") \cup Raws
\* two adjacent texts are one text
WellFormed(src) == \A i \in 1..(Len(src) - 1) : ~(src[i].k = "text" /\ src[i + 1].k = "text")

EndsDash(s) == s.k # "text" /\ s.dr          \* the segment ends with `-}}` / `-%}` / `-#}`
StartsDash(s) == s.k # "text" /\ s.dl        \* the segment starts with `{{-` / `{%-` / `{#-`
P(i, p) == <<i, p>>
TextOut(i, s, trimL, trimR) ==
  IF ~s.c THEN (IF trimL \/ trimR THEN <<>> ELSE <<P(i, "lead")>>)
  ELSE (IF s.l /\ ~trimL THEN <<P(i, "lead")>> ELSE <<>>) \o <<P(i, "core")>> \o (IF s.t /\ ~trimR THEN <<P(i, "trail")>> ELSE <<>>)
RawOut(i, s, trimL, trimR) ==
  (IF s.il \/ trimL THEN <<>> ELSE <<P(i, "lead")>>) \o <<P(i, "core")>> \o (IF s.ir \/ trimR THEN <<>> ELSE <<P(i, "trail")>>)

\* ---- Out: a text loses its leading whitespace iff the segment DIRECTLY before it ends with a `-`, its trailing
\* whitespace iff the segment DIRECTLY after it starts with one; a raw body counts as text for both rules and
\* also obeys its own inner markers; comments and tags emit nothing; an expression emits its value.
SegOut(src, i) ==
  LET s == src[i]
      pl == i > 1 /\ EndsDash(src[i - 1])
      nr == i < Len(src) /\ StartsDash(src[i + 1]) IN
  CASE s.k = "text" -> TextOut(i, s, pl, nr)
    [] s.k = "expr" -> <<P(i, "value")>>
    [] s.k = "raw" -> RawOut(i, s, pl, nr)
    [] OTHER -> <<>>
RECURSIVE OutFrom(_, _)
OutFrom(src, i) == IF i > Len(src) THEN <<>> ELSE SegOut(src, i) \o OutFrom(src, i + 1)
Out(src) == OutFrom(src, 1)

\* ---- Filt: one pass with a carried flag `rm` = "remove the leading whitespace of the next text"
\* CommentResets = TRUE: a comment sets the flag to its own right marker (repaired filter)
\* CommentResets = FALSE: a comment can only set the flag, never clear it (the pinned code)
CONSTANT CommentResets
RECURSIVE Filt(_, _, _)
Filt(src, i, rm) ==
  IF i > Len(src) THEN <<>>
  ELSE LET s == src[i] nr == i < Len(src) /\ StartsDash(src[i + 1]) IN
    CASE s.k = "text" -> TextOut(i, s, rm, nr) \o Filt(src, i + 1, FALSE)
      [] s.k = "raw" -> RawOut(i, s, rm, nr) \o Filt(src, i + 1, s.dr)
      [] s.k = "expr" -> <<P(i, "value")>> \o Filt(src, i + 1, s.dr)
      [] s.k = "tag" -> Filt(src, i + 1, s.dr)
      [] s.k = "com" -> Filt(src, i + 1, IF CommentResets THEN s.dr ELSE (rm \/ s.dr))
Refines(src) == Filt(src, 1, FALSE) = Out(src)
=============================================================================
