CONSTANT Ks = {63, 64, 127}
INIT Init
NEXT Next
INVARIANT DivLaw
INVARIANT AddCommutes
INVARIANT CmpAntisym
INVARIANT CmpAgreesOnInts
INVARIANT Emit
CHECK_DEADLOCK FALSE
