------------------------------ MODULE MC_Arith ------------------------------
EXTENDS Arith, Json, FiniteSets
CONSTANT Ks            \* the powers of two around which integers are taken
SmallInts == {Zero} \cup {Mk(s, <<v>>) : s \in BOOLEAN, v \in {1, 2, 3, 7}}
BigInts == {Mk(s, IF d = -1 THEN SubMag(Pow2(k), <<1>>) ELSE IF d = 0 THEN Pow2(k) ELSE AddMag(Pow2(k), <<1>>))
             : s \in BOOLEAN, k \in Ks, d \in {-1, 0, 1}}
Ints == SmallInts \cup BigInts
\* dyadic floats: +-0, +-0.5, +-1.5, +-1, 2^53, 2^53+2, 2^63, 2^64, 2^127, 2^128 (all exactly representable in f64)
Floats == {Flt(s, <<>>, 0) : s \in BOOLEAN} \cup {Flt(s, <<1>>, -1) : s \in BOOLEAN} \cup {Flt(s, <<3>>, -1) : s \in BOOLEAN}
          \cup {Flt(s, <<1>>, 0) : s \in BOOLEAN}
          \cup {Flt(FALSE, <<1>>, 53), Flt(FALSE, AddMag(Pow2(52), <<1>>), 1), Flt(FALSE, <<1>>, 63), Flt(TRUE, <<1>>, 63),
                Flt(FALSE, <<1>>, 64), Flt(FALSE, <<1>>, 127), Flt(TRUE, <<1>>, 127), Flt(FALSE, <<1>>, 128)}
          \* tiny non-zero floats (2^-70 and 3*2^-200 are far below the machine epsilon): not zero, in comparisons and as divisors
          \cup {Flt(s, <<1>>, -70) : s \in BOOLEAN} \cup {Flt(FALSE, <<3>>, -200)}
          \cup {NaN, Inf(FALSE), Inf(TRUE)}
Nums == {IntN(v) : v \in Ints} \cup Floats
Exps == {0, 1, 2, 3, 7, 31, 32, 63, 64, 126, 127, 128}
VARIABLES mode, a, b, e, done
vars == <<mode, a, b, e, done>>
Init == /\ done = FALSE
        /\ \/ mode = "int" /\ a \in Ints /\ b \in Ints /\ e = 0
           \/ mode = "pow" /\ a \in Ints /\ b = Zero /\ e \in Exps \cup {-1, -2}  \* -2 / -1 = a huge (>= 2^32) even / odd exponent
           \/ mode = "cmp" /\ a \in Nums /\ b \in Nums /\ e = 0
\* the evaluation happens on the successor state so that TLC's workers share it
Next == ~done /\ done' = TRUE /\ UNCHANGED <<mode, a, b, e>>
\* the laws of the statement, checked on the specification's own arithmetic
DivLaw == done /\ mode = "int" /\ b # Zero => LET q == DivE(a, b) r == ModE(a, b) IN
            Add(Mul(q, b), r) = a /\ Cmp(r, Zero) >= 0 /\ CmpMag(r.m, b.m) < 0
AddCommutes == done /\ mode = "int" => Add(a, b) = Add(b, a) /\ Mul(a, b) = Mul(b, a) /\ Sub(a, b) = Neg(Sub(b, a))
CmpAntisym == done /\ mode = "cmp" => CmpNum(a, b) = -CmpNum(b, a) /\ (a = b => CmpNum(a, b) = 0)
CmpAgreesOnInts == done /\ mode = "int" => CmpNum(IntN(a), IntN(b)) = Cmp(a, b)
Emit == ~done \/
  CASE mode = "int" -> PrintT(<<"VEC", ToJson([mode |-> mode, a |-> a, b |-> b, neg |-> NegOp(a),
                          ops |-> [op \in {"+", "-", "*", "//", "%"} |-> IntOp(op, a, b)]])>>)
    [] mode = "pow" -> PrintT(<<"VEC", ToJson([mode |-> mode, a |-> a, e |-> e, r |-> PowOp(a, IF e < 0 THEN e + 2 ELSE e, e < 0)])>>)
    [] mode = "cmp" -> PrintT(<<"VEC", ToJson([mode |-> mode, a |-> a, b |-> b, c |-> CmpNum(a, b), bzero |-> IsZeroNum(b)])>>)
=============================================================================
