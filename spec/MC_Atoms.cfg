CONSTANTS NAtoms = 44
  MaxAtoms = 2
INIT AtomInit
NEXT AtomNext
INVARIANT EmitAtoms
CHECK_DEADLOCK FALSE
