------------------------------- MODULE MC_Atoms -------------------------------
(* the lexical-atom space of C06: every sequence of at most MaxAtoms atoms out of NAtoms (the atoms themselves — every     *)
(* delimiter and half-delimiter, `-`, quotes, unterminated constructs, multi-byte characters, huge numbers, keywords,     *)
(* operators — are listed in the harness, which concatenates them)                                                        *)
EXTENDS Integers, Sequences, FiniteSets, TLC, Json
CONSTANTS NAtoms, MaxAtoms
VARIABLES seq
AtomInit == seq \in UNION {[1..n -> 1..NAtoms] : n \in 1..MaxAtoms}
AtomNext == UNCHANGED seq
EmitAtoms == PrintT(<<"VEC", ToJson(seq)>>)
=============================================================================
