INIT Init
NEXT Next
INVARIANT InvStaticSame
INVARIANT InvEscLonger
INVARIANT Emit
CHECK_DEADLOCK FALSE
