------------------------------- MODULE MC_Body -------------------------------
(***************************************************************************)
(* C05 / C01, the body of a component call.  "A call with a body passes    *)
(* the body, rendered in the caller's scope and escaping mode, as `body`;  *)
(* the call's result is inserted in the caller's output without being      *)
(* escaped again."  The body is OUTPUT of the caller: once rendered it is  *)
(* text the engine has already dealt with, so wherever the component       *)
(* prints `body` -- directly, from a template it includes (whatever that   *)
(* template's own escaping mode), forwarded as the body of another         *)
(* component, after a `set` -- the text arrives unchanged.  Where caller,   *)
(* component and included template do not share one escaping mode the      *)
(* statements only say that the template call gives the same text as       *)
(* render_component given the rendered body: that is what is compared.     *)
(*                                                                         *)
(* A body is a sequence of pieces; every configuration in bounds is an     *)
(* initial state and the expected text is computed here.                   *)
(***************************************************************************)
EXTENDS Integers, Sequences, FiniteSets, TLC, Json
Pieces == {"text", "data", "safe", "cond", "loop", "call"}
Bodies == UNION {[1..n -> Pieces] : n \in 0..2}
Vias == {"direct", "include-html", "include-txt", "forward", "set", "twice"}
\* the text a piece contributes to the body when the CALLER renders it with / without autoescaping
TextT == "<b>T&</b>"
DataRaw == "<d>&\"'"
DataEsc == "&lt;d&gt;&amp;&quot;&#39;"
PieceOut(p, ae) ==
  CASE p = "text" -> TextT
    [] p = "data" -> IF ae THEN DataEsc ELSE DataRaw
    [] p = "safe" -> DataRaw
    [] p = "cond" -> "<i>"
    [] p = "loop" -> IF ae THEN "&lt;<u>&gt;<u>" ELSE "<<u>><u>"        \* for x in ['<', '>']: {{ x }}<u>
    [] p = "call" -> "(in:" \o (IF ae THEN DataEsc ELSE DataRaw) \o ")"   \* an inline call of another component inside the body
RECURSIVE BodyOut(_, _, _)
BodyOut(b, i, ae) == IF i > Len(b) THEN "" ELSE PieceOut(b[i], ae) \o BodyOut(b, i + 1, ae)
\* what the component writes around the body, and how often it prints it
Expected(b, via, ae) == LET t == BodyOut(b, 1, ae) IN
  CASE via = "twice" -> "[" \o t \o "|" \o t \o "]"
    [] OTHER -> "[" \o t \o "]"
VARIABLES body, via, attrs, callerAE, compAE
vars == <<body, via, attrs, callerAE, compAE>>
Init == body \in Bodies /\ via \in Vias /\ attrs \in BOOLEAN /\ callerAE \in BOOLEAN /\ compAE \in BOOLEAN
Next == UNCHANGED vars
\* laws of the reference: a body without data reads the same in both modes; escaping never shortens
InvStaticSame == (\A i \in 1..Len(body) : body[i] \in {"text", "safe", "cond"}) => BodyOut(body, 1, TRUE) = BodyOut(body, 1, FALSE)
InvEscLonger == Len(BodyOut(body, 1, TRUE)) >= Len(BodyOut(body, 1, FALSE))
Emit == PrintT(<<"VEC", ToJson([body |-> body, via |-> via, attrs |-> attrs, callerAE |-> callerAE, compAE |-> compAE,
                                 bt |-> BodyOut(body, 1, callerAE), out |-> Expected(body, via, callerAE),
                                 \* every template that takes part shares one escaping mode: the exact text is demanded (C01 / C05);
                                 \* otherwise only what C05 says of the API: the same text as render_component given this body
                                 uniform |-> (callerAE = compAE /\ (via = "include-html" => callerAE) /\ (via = "include-txt" => ~callerAE))])>>)
=============================================================================
