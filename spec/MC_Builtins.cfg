CONSTANT MaxLen = 3
INIT Init
NEXT Next
INVARIANT InvSortPermutes
INVARIANT InvReverseTwice
INVARIANT InvUniqueIdempotent
INVARIANT InvObs
INVARIANT Emit
CHECK_DEADLOCK FALSE
