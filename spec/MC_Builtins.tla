----------------------------- MODULE MC_Builtins -----------------------------
EXTENDS Builtins, Json, IOUtils
CONSTANT MaxLen
U == << El("i1a", "int", 1, "n1", NoKey), El("i1b", "int", 1, "n1", NoKey), El("i2", "int", 2, "n2", NoKey),
        El("sa", "str", 1, "sa", NoKey), El("sb", "str", 2, "sb", NoKey), El("nn", "none", 0, "none", NoKey),
        El("m1", "map", 0, "m1", K("int", 1)), El("m2", "map", 0, "m2", K("int", 1)), El("m3", "map", 0, "m3", K("int", 2)),
        El("ms", "map", 0, "ms", K("str", 1)), El("mx", "map", 0, "mx", NoKey), El("mn", "map", 0, "mn", K("none", 0)),
        ArrEl("ar", "ar", <<Sc("int", 1)>>), ArrEl("ax", "ax", <<Sc("int", 1), Sc("str", 1)>>), ArrEl("a13", "a13", <<Sc("int", 1), Sc("int", 3)>>),
        ArrEl("a2", "a2", <<Sc("int", 2)>>), El("m0", "map", 0, "m0", NoKey), El("mxz", "map", 0, "mxz", NoKey),
        \* arrays with a map member (no order on maps): aq2 extends aq -- different data, never to be merged by `unique`
        ArrEl("aq", "aq", <<Sc("map", 1)>>), ArrEl("aq2", "aq2", <<Sc("map", 1), Sc("int", 2)>>),
        \* a negative integer (the harness stores it as i64, next to 1 stored as u64) and a map keyed by it
        El("in1", "int", -1, "nm1", NoKey), El("mk", "map", 0, "mk", K("int", -1)),
        \* a negative fractional number just below -1 (rank -2): floats and integers are ordered by value
        El("fm15", "int", -2, "nm1h", NoKey),
        \* zero held as an unsigned machine integer (u64 / u128): next to the negative float and the negative integer;
        \* the two bools: ordered among themselves, never with a number
        El("z0", "int", 0, "n0", NoKey), El("zU", "int", 0, "n0", NoKey), El("bt", "bool", 1, "bt", NoKey), El("bf", "bool", 0, "bf", NoKey),
        \* the float 2^53 and the integer 2^53 + 1 (which rounds to it): different data, the integer is the larger
        El("f53", "int", 7, "n2p53", NoKey), El("i53", "int", 8, "n2p53p1", NoKey) >>
GK == << <<"int", 1>>, <<"int", 2>>, <<"str", 1>> >>          \* the group keys that can occur in U
Obs == IF IOEnv.OBS = "" THEN <<>> ELSE ndJsonDeserialize(IOEnv.OBS)
VARIABLES mode, xs, o, done
Init == \/ mode = "enum" /\ xs \in UNION {[1..n -> 1..Len(U)] : n \in 0..MaxLen} /\ o = 0 /\ done = FALSE
        \/ mode = "obs" /\ xs = <<>> /\ o \in 1..Len(Obs) /\ done = FALSE
Next == ~done /\ done' = TRUE /\ UNCHANGED <<mode, xs, o>>
E == [i \in 1..Len(xs) |-> U[xs[i]]]
Ids(s) == [i \in 1..Len(s) |-> s[i].id]
Res(r) == [r |-> r.r, out |-> Ids(r.out)]
\* laws of the reference itself
InvSortPermutes == done /\ mode = "enum" /\ Sort(E).r = "ok" => Len(Sort(E).out) = Len(E) /\ \A i \in 1..Len(E) : \E j \in 1..Len(E) : Sort(E).out[j] = E[i]
InvReverseTwice == done /\ mode = "enum" => Reverse(Reverse(E)) = E
InvUniqueIdempotent == done /\ mode = "enum" => Unique(Unique(E, {}), {}) = Unique(E, {})
Emit == done /\ mode = "enum" =>
  PrintT(<<"VEC", ToJson([xs |-> Ids(E), sort |-> Res(Sort(E)), sortk |-> Res(SortByKey(E)), unique |-> Ids(Unique(E, {})),
                          gok |-> GroupByOk(E), groups |-> [g \in 1..Len(GK) |-> Ids(Group(E, GK[g]))], ngroups |-> Cardinality(GroupKeys(E)), rev |-> Ids(Reverse(E))])>>)
\* recorded observations on long arrays: sort by attribute (positions of the output), unique
InvObs == done /\ mode = "obs" =>
  LET b == Obs[o] IN
  CASE b.f = "sort" -> IF AllComparable(b.kinds, b.rank) THEN b.ok /\ IsPermutation(Len(b.kinds), b.out) /\ SortedStable(b.rank, b.out) ELSE ~b.ok
    [] b.f = "unique" -> b.ok /\ UniqueContract(b.cls, b.out)
    [] OTHER -> TRUE
=============================================================================
