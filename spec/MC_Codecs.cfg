INIT Init
NEXT Next
INVARIANT InvCodec
CHECK_DEADLOCK FALSE
