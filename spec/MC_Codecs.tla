------------------------------- MODULE MC_Codecs -------------------------------
EXTENDS Codecs, Json, IOUtils
Obs == ndJsonDeserialize(IOEnv.OBS)
VARIABLES i
Init == i \in 1..Len(Obs)
Next == UNCHANGED i
InvCodec == LET o == Obs[i] IN
  CASE o.f = "b64" -> B64Ok(o) [] o.f = "url" -> UrlOk(o) [] o.f = "slug" -> SlugOk(o) [] o.f = "json" -> JsonOk(o) [] OTHER -> FALSE
\* sanity of the decoder itself on fixed literals (evaluated once)
ASSUME ParseJson(<<123, 34, 97, 34, 58, 91, 49, 44, 34, 92, 117, 48, 48, 52, 49, 34, 93, 125>>).v
         = [t |-> "obj", ks |-> <<<<97>>>>, vs |-> <<[t |-> "arr", xs |-> <<[t |-> "num", d |-> <<49>>], [t |-> "str", s |-> <<65>>]>>]>>]
ASSUME ~ParseJson(<<91, 49, 44, 93>>).ok /\ ~ParseJson(<<34, 10, 34>>).ok /\ PctDecode(<<37, 52, 49, 47>>) = <<65, 47>>
=============================================================================
