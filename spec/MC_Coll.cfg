CONSTANT MaxItems = 3
INIT Init
NEXT Next
INVARIANT InvArrLen
INVARIANT InvMapKeysUnique
INVARIANT InvLastWins
INVARIANT InvCompBound
INVARIANT Emit
CHECK_DEADLOCK FALSE
