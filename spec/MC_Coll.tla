------------------------------- MODULE MC_Coll -------------------------------
(***************************************************************************)
(* C02, collection expressions: array and map literals with spreads, and   *)
(* list comprehensions, as the documentation gives them:                   *)
(*   [a, ...xs, b]    items left to right, a spread splices an ARRAY in,   *)
(*                    anything else spread into an array is an error       *)
(*   {...m, "k": v}   entries left to right, later entries win, a spread   *)
(*                    merges a MAP in, anything else is an error           *)
(*   [body for x in it if cond]   "syntax sugar for a for loop": elements  *)
(*                    of an array, characters of a string, (k, v) of a map *)
(*                    with two names; the loop name shadows an outer name  *)
(*                    only inside; a falsy / undefined condition skips the *)
(*                    element; iterating anything else is an error         *)
(* Every expression in bounds is an initial state; its value under the     *)
(* fixed environment is emitted and compared by the harness through `==`   *)
(* against the value written as a literal.                                 *)
(***************************************************************************)
EXTENDS Integers, Sequences, FiniteSets, TLC, Json
CONSTANT MaxItems
I(n) == [t |-> "int", i |-> n, s |-> "", xs |-> <<>>]
S(s) == [t |-> "str", i |-> 0, s |-> s, xs |-> <<>>]
A(xs) == [t |-> "arr", i |-> 0, s |-> "", xs |-> xs]
\* a map is a sequence of <<key, value>> pairs, keys unique, in order of first insertion (order is not compared)
M(kv) == [t |-> "map", i |-> 0, s |-> "", xs |-> kv]
None == [t |-> "none", i |-> 0, s |-> "", xs |-> <<>>]
Undef == [t |-> "undef", i |-> 0, s |-> "", xs |-> <<>>]
Ok(v) == [r |-> "ok", v |-> v]
Err == [r |-> "err", v |-> None]
Unspec == [r |-> "unspec", v |-> None]

Env == [x |-> I(3), xs |-> A(<<I(1), I(2)>>), es |-> A(<<>>), m |-> M(<< <<"a", I(1)>>, <<"b", I(2)>> >>),
        m2 |-> M(<< <<"b", I(9)>>, <<"c", I(3)>> >>), s |-> S("pq"), y |-> I(7), n |-> None]
\* ("-1": a literal the parser has to fold with its sign -- an all-literal collection is built at parse time)
\* (L17: an all-literal array of 17 items -- literal collections are folded at parse time, whatever their size and nesting)
L17 == "[1, 2, 3, 4, 5, 6, 7, 8, 9, 10, 11, 12, 13, 14, 15, 16, 17]"
Leaves == {"1", "-1", "'a'", "x", "xs", "es", "m", "m2", "s", "n", "u", L17}
Leaf(l) == CASE l = "1" -> I(1) [] l = "-1" -> I(-1) [] l = "'a'" -> S("a") [] l = "u" -> Undef [] l = L17 -> A([j \in 1..17 |-> I(j)]) [] OTHER -> Env[l]

\* ---- array literal
Items == [sp : BOOLEAN, e : Leaves]
RECURSIVE ArrEval(_, _, _)
ArrEval(items, i, acc) ==
  IF i > Len(items) THEN Ok(A(acc))
  ELSE LET v == Leaf(items[i].e) IN
       IF items[i].sp THEN (IF v.t = "arr" THEN ArrEval(items, i + 1, acc \o v.xs) ELSE Err)
       ELSE IF v.t = "undef" THEN Unspec          \* an undefined name as an element: the documentation does not say
       ELSE ArrEval(items, i + 1, Append(acc, v))

\* ---- map literal
Keys == {"a", "b", "d"}
Entries == [sp : BOOLEAN, k : Keys, e : Leaves]
Put(kv, k, v) == IF \E j \in 1..Len(kv) : kv[j][1] = k
                 THEN [j \in 1..Len(kv) |-> IF kv[j][1] = k THEN <<k, v>> ELSE kv[j]]
                 ELSE Append(kv, <<k, v>>)
RECURSIVE PutAll(_, _, _), MapEval(_, _, _)
PutAll(kv, src, j) == IF j > Len(src) THEN kv ELSE PutAll(Put(kv, src[j][1], src[j][2]), src, j + 1)
MapEval(es, i, acc) ==
  IF i > Len(es) THEN Ok(M(acc))
  ELSE LET v == Leaf(es[i].e) IN
       IF es[i].sp THEN (IF v.t = "map" THEN MapEval(es, i + 1, PutAll(acc, v.xs, 1)) ELSE Err)
       ELSE IF v.t = "undef" THEN Unspec
       ELSE MapEval(es, i + 1, Put(acc, es[i].k, v))

\* ---- list comprehension  [body for x in it if cond]  /  [body for k, x in it if cond]
Bodies == {"x", "x * 2", "[x]", "y", "k", "x if x > 1 else 0"}
Conds == {"", "x > 1", "x is odd", "false", "u", "x != 'p'"}
Comps == {c \in [body : Bodies, two : BOOLEAN, it : Leaves, cond : Conds] : (c.body = "k" => c.two)}
Elements(v, two) ==                      \* the bindings <<k, x>> the loop goes through; k = None with one name
  IF v.t = "arr" /\ ~two THEN [j \in 1..Len(v.xs) |-> <<None, v.xs[j]>>]
  ELSE IF v.t = "str" /\ ~two THEN (IF v.s = "pq" THEN << <<None, S("p")>>, <<None, S("q")>> >> ELSE << <<None, S(v.s)>> >>)
  ELSE IF v.t = "map" /\ two THEN [j \in 1..Len(v.xs) |-> <<S(v.xs[j][1]), v.xs[j][2]>>]
  ELSE <<>>
Iterable(v, two) == (v.t \in {"arr", "str"} /\ ~two) \/ (v.t = "map" /\ two)
\* the condition on one binding: "yes" | "no" | "err" | "unspec"
CondOn(c, x) ==
  CASE c = "" -> "yes"
    [] c = "false" -> "no"
    [] c = "u" -> "no"                                   \* an undefined name may be tested: falsy
    [] c = "x > 1" -> IF x.t = "int" THEN (IF x.i > 1 THEN "yes" ELSE "no") ELSE "err"      \* ordering across kinds is an error
    [] c = "x is odd" -> IF x.t = "int" THEN (IF x.i % 2 = 1 THEN "yes" ELSE "no") ELSE "unspec"
    [] c = "x != 'p'" -> IF x = S("p") THEN "no" ELSE "yes"
BodyOn(b, k, x) ==
  CASE b = "x" -> Ok(x)
    [] b = "x * 2" -> IF x.t = "int" THEN Ok(I(x.i * 2)) ELSE Err
    [] b = "[x]" -> Ok(A(<<x>>))
    [] b = "y" -> Ok(Env.y)
    [] b = "k" -> Ok(k)
    [] b = "x if x > 1 else 0" -> IF x.t = "int" THEN Ok(IF x.i > 1 THEN x ELSE I(0)) ELSE Err
RECURSIVE CompEval(_, _, _, _)
CompEval(c, els, j, acc) ==
  IF j > Len(els) THEN Ok(A(acc))
  ELSE LET cd == CondOn(c.cond, els[j][2]) IN
       IF cd = "err" THEN Err ELSE IF cd = "unspec" THEN Unspec
       ELSE IF cd = "no" THEN CompEval(c, els, j + 1, acc)
       ELSE LET b == BodyOn(c.body, els[j][1], els[j][2]) IN
            IF b.r # "ok" THEN b ELSE CompEval(c, els, j + 1, Append(acc, b.v))
Comp(c) == LET v == Leaf(c.it) IN
           IF ~Iterable(v, c.two) THEN (IF v.t = "map" /\ ~c.two THEN Unspec ELSE Err)     \* one name over a map: not documented
           ELSE CompEval(c, Elements(v, c.two), 1, <<>>)

VARIABLES kind, arr, map, comp
vars == <<kind, arr, map, comp>>
NoComp == [body |-> "x", two |-> FALSE, it |-> "1", cond |-> ""]
Init == \/ kind = "arr" /\ arr \in UNION {[1..n -> Items] : n \in 0..MaxItems} /\ map = <<>> /\ comp = NoComp
        \/ kind = "map" /\ map \in UNION {[1..n -> Entries] : n \in 0..(MaxItems - 1)} /\ arr = <<>> /\ comp = NoComp
        \/ kind = "comp" /\ comp \in Comps /\ arr = <<>> /\ map = <<>>
Next == UNCHANGED vars
Result == CASE kind = "arr" -> ArrEval(arr, 1, <<>>) [] kind = "map" -> MapEval(map, 1, <<>>) [] kind = "comp" -> Comp(comp)
\* laws of the reference itself: a literal without spreads has as many elements as items; spreading twice doubles;
\* later entries win; a comprehension never yields more elements than it iterates
InvArrLen == kind = "arr" /\ Result.r = "ok" /\ (\A i \in 1..Len(arr) : ~arr[i].sp) => Len(Result.v.xs) = Len(arr)
InvMapKeysUnique == kind = "map" /\ Result.r = "ok" => \A i, j \in 1..Len(Result.v.xs) : i # j => Result.v.xs[i][1] # Result.v.xs[j][1]
InvLastWins == kind = "map" /\ Result.r = "ok" /\ map # <<>> /\ ~map[Len(map)].sp =>
                 \E j \in 1..Len(Result.v.xs) : Result.v.xs[j] = <<map[Len(map)].k, Leaf(map[Len(map)].e)>>
InvCompBound == kind = "comp" /\ Result.r = "ok" => Len(Result.v.xs) <= Len(Elements(Leaf(comp.it), comp.two))
Emit == PrintT(<<"VEC", ToJson([kind |-> kind, arr |-> arr, map |-> map, comp |-> comp, res |-> Result])>>)
=============================================================================
