INIT Init
NEXT Next
INVARIANT InvExactlyDeclared
INVARIANT InvNothingLost
INVARIANT Emit
INVARIANT EmitTypes
CHECK_DEADLOCK FALSE
