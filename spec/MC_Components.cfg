INIT Init
NEXT Next
INVARIANT InvExactlyDeclared
INVARIANT InvNothingLost
INVARIANT Emit
CHECK_DEADLOCK FALSE
