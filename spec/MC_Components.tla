---------------------------- MODULE MC_Components ----------------------------
EXTENDS Components, Json
P(n, typ, def) == [n |-> n, typ |-> typ, def |-> def]
\* (type, default) combinations whose default agrees with the declared type
TD == {<<"", "none">>, <<"", "s">>, <<"", "i">>, <<"string", "none">>, <<"string", "s">>, <<"integer", "none">>, <<"integer", "i">>, <<"number", "none">>, <<"number", "i">>}
Sigs == {[ps |-> <<P("p", a[1], a[2])>>, rest |-> r] : a \in TD, r \in BOOLEAN}
        \cup {[ps |-> <<P("p", a[1], a[2]), P("q", b[1], b[2])>>, rest |-> r] : a \in TD, b \in TD, r \in BOOLEAN}
Calls == [ArgNames -> Kinds \cup {"-"}]
VARIABLES sig, call, done, pv
NoSig == [ps |-> <<P("p", "", "none")>>, rest |-> FALSE]
NoCall == [a \in ArgNames |-> "-"]
Init == \/ sig \in Sigs /\ call \in Calls /\ done = FALSE /\ pv = <<>>
        \/ sig = NoSig /\ call = NoCall /\ done = FALSE /\ pv \in PrioVectors
Next == ~done /\ done' = TRUE /\ UNCHANGED <<sig, call, pv>>
InvExactlyDeclared == done /\ pv = <<>> => ExactlyDeclared(sig, call)
InvNothingLost == done /\ pv = <<>> => NothingLost(sig, call)
\* the type table, emitted once: (declared type | default kind) x value kind -> accepted?
DefKinds == {"str", "int", "float", "bool", "arr", "map"}
EmitTypes == (done /\ pv = <<>> /\ sig = [ps |-> <<P("p", "", "none")>>, rest |-> FALSE] /\ \A a \in ArgNames : call[a] = "-") =>
   PrintT(<<"TYPES", ToJson([declared |-> [ty \in AllTypes |-> [k \in AllKinds |-> TypeAccepts(ty, k)]],
                             inferred |-> [dk \in DefKinds |-> [k \in AllKinds |-> TypeAccepts(InferredFrom(dk), k)]],
                             \* a declared type wins over what the default would imply (declared x default kind x value kind)
                             both |-> [ty \in {"number", "float", "integer"} |-> [dk \in {"int", "float"} |-> [k \in AllKinds |-> TypeAccepts(ty, k)]]]])>>)
Emit == done => IF pv = <<>> THEN PrintT(<<"VEC", ToJson([sig |-> sig, call |-> call, b |-> Bind(sig, call)])>>)
                ELSE PrintT(<<"PRIO", ToJson([v |-> pv, o |-> PrioOutcome(pv)])>>)
=============================================================================
