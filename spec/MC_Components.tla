---------------------------- MODULE MC_Components ----------------------------
EXTENDS Components, Json
P(n, typ, def) == [n |-> n, typ |-> typ, def |-> def]
\* (type, default) combinations whose default agrees with the declared type
TD == {<<"", "none">>, <<"", "s">>, <<"", "i">>, <<"string", "none">>, <<"string", "s">>, <<"integer", "none">>, <<"integer", "i">>, <<"number", "none">>, <<"number", "i">>}
Sigs == {[ps |-> <<P("p", a[1], a[2])>>, rest |-> r] : a \in TD, r \in BOOLEAN}
        \cup {[ps |-> <<P("p", a[1], a[2]), P("q", b[1], b[2])>>, rest |-> r] : a \in TD, b \in TD, r \in BOOLEAN}
Calls == [ArgNames -> Kinds \cup {"-"}]
VARIABLES sig, call, done, pv
NoSig == [ps |-> <<P("p", "", "none")>>, rest |-> FALSE]
NoCall == [a \in ArgNames |-> "-"]
Init == \/ sig \in Sigs /\ call \in Calls /\ done = FALSE /\ pv = <<>>
        \/ sig = NoSig /\ call = NoCall /\ done = FALSE /\ pv \in PrioVectors
Next == ~done /\ done' = TRUE /\ UNCHANGED <<sig, call, pv>>
InvExactlyDeclared == done /\ pv = <<>> => ExactlyDeclared(sig, call)
InvNothingLost == done /\ pv = <<>> => NothingLost(sig, call)
Emit == done => IF pv = <<>> THEN PrintT(<<"VEC", ToJson([sig |-> sig, call |-> call, b |-> Bind(sig, call)])>>)
                ELSE PrintT(<<"PRIO", ToJson([v |-> pv, o |-> PrioOutcome(pv)])>>)
=============================================================================
