INIT Init
NEXT Next
INVARIANT InvDefaultValid
INVARIANT Emit
CHECK_DEADLOCK FALSE
