------------------------------ MODULE MC_Delims ------------------------------
(***************************************************************************)
(* C06 / C08, "all delimiter sets accepted by set_delimiters": a set is    *)
(* accepted iff each of the six delimiters is exactly 2 bytes long and the *)
(* three START delimiters are pairwise different (delimiters.rs; the lexer *)
(* relies on both: it advances by 2 and searches windows of 2 bytes).      *)
(* Candidates are (name, byte length) pairs the harness spells out; every  *)
(* set that differs from the default in at most two positions is an        *)
(* initial state.                                                          *)
(***************************************************************************)
EXTENDS Integers, Sequences, FiniteSets, TLC, Json
Default == <<"bs", "be", "vs", "ve", "cs", "ce">>           \* {% %} {{ }} {# #}
\* candidate replacements: name |-> byte length
Len2 == {"sq", "ang", "guil", "eacute", "pct"}             \* [[  <%  «(2-byte char)  é(2-byte char)  %%
Pool == [empty |-> 0, one |-> 1, sq |-> 2, ang |-> 2, guil |-> 2, eacute |-> 2, pct |-> 2, cjk |-> 3, three |-> 3, emoji |-> 4,
         bs |-> 2, be |-> 2, vs |-> 2, ve |-> 2, cs |-> 2, ce |-> 2]
Cands == DOMAIN Pool
Starts == {1, 3, 5}
Valid(d) == /\ \A i \in 1..6 : Pool[d[i]] = 2
            /\ \A i, j \in Starts : i # j => d[i] # d[j]
VARIABLE d
Init == \E i, j \in 1..6, a, b \in Cands : d = [Default EXCEPT ![i] = a, ![j] = b]
Next == UNCHANGED d
InvDefaultValid == d = Default => Valid(d)
Emit == PrintT(<<"VEC", ToJson([d |-> d, ok |-> Valid(d)])>>)
=============================================================================
