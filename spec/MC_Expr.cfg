CONSTANT MaxOps = 2
INIT Init
NEXT Next
INVARIANT LogSound
INVARIANT Emit
INVARIANT EmitEnv
CHECK_DEADLOCK FALSE
