------------------------------- MODULE MC_Expr -------------------------------
EXTENDS Expr, Json
CONSTANT MaxOps
BinOps == {"or", "and", "==", "!=", "<", "<=", ">", ">=", "+", "-", "*", "/", "//", "%", "~", "**", "in", "notin"}
UnOps == {"not", "neg", "is_defined", "isnot_defined", "is_odd", "f_abs", "f_length"}
Sh2(o1, o2, k) == IF k = 1 THEN Bin(o1, Bin(o2, Lit(1), Lit(2)), Lit(3)) ELSE Bin(o1, Lit(1), Bin(o2, Lit(2), Lit(3)))
Sh3(o1, o2, o3, k) == CASE k = 1 -> Bin(o1, Bin(o2, Bin(o3, Lit(1), Lit(2)), Lit(3)), Lit(4))
                        [] k = 2 -> Bin(o1, Bin(o2, Lit(1), Bin(o3, Lit(2), Lit(3))), Lit(4))
                        [] k = 3 -> Bin(o1, Bin(o2, Lit(1), Lit(2)), Bin(o3, Lit(3), Lit(4)))
                        [] k = 4 -> Bin(o1, Lit(1), Bin(o2, Bin(o3, Lit(2), Lit(3)), Lit(4)))
                        [] k = 5 -> Bin(o1, Lit(1), Bin(o2, Lit(2), Bin(o3, Lit(3), Lit(4))))
\* one unary / postfix operator around the root (pos 0), the root's left operand (1) or its right operand (2); "-" = none
Wrap(a, u, pos) == IF u = "-" THEN a ELSE IF pos = 0 THEN Un(u, a) ELSE IF pos = 1 THEN Bin(a.o, Un(u, a.l), a.r) ELSE Bin(a.o, a.l, Un(u, a.r))
\* ternaries: laziness and grouping of the three operands
Small == <<Lit(1), Lit(2), Lit(3), Bin("or", Lit(1), Lit(2)), Bin("and", Lit(2), Lit(3)), Bin("==", Lit(1), Lit(2)), Bin("+", Lit(2), Lit(3)), Un("not", Lit(1))>>
TernX == <<Bin("or", Tern(Lit(1), Lit(2), Lit(3)), Lit(4)), Bin("+", Tern(Lit(1), Lit(2), Lit(3)), Lit(4)), Bin("==", Tern(Lit(1), Lit(2), Lit(3)), Lit(4)),
           Tern(Lit(1), Tern(Lit(2), Lit(3), Lit(4)), Lit(2)), Tern(Lit(1), Lit(2), Tern(Lit(3), Lit(4), Lit(1)))>>
\* the undefined rules: accesses on unbound / missing / undefined-holding / none / scalar bases, then a consumer
Bases == {"u", "m", "e", "h", "n", "s"}
Acc == {"attr", "sub", "attr_opt", "sub_opt"}
PathOf(b, a1, a2) == LET p0 == Var(b) p1 == IF a1 = "-" THEN p0 ELSE Un(a1, p0) IN IF a2 = "-" THEN p1 ELSE Un(a2, p1)
DStr == Cst(St(<<"D">>))
Consume(p, c) == CASE c = 0 -> p [] c = 1 -> Bin("or", p, DStr) [] c = 2 -> Bin("and", p, DStr) [] c = 3 -> Un("is_defined", p)
                   [] c = 4 -> Un("isnot_defined", p) [] c = 5 -> Bin("+", p, Cst(I(1))) [] c = 6 -> Un("not", p)
                   [] c = 7 -> Tern(Cst(I(1)), DStr, p) [] c = 8 -> Tern(p, DStr, Cst(I(2))) [] c = 9 -> Bin("==", p, Cst(I(5)))
                   [] c = 10 -> Un("f_length", p) [] c = 11 -> Bin("~", DStr, p)
\* the parameter space (small product sets; the AST is built from the parameters)
Params ==
  [f : {"bin1"}, o1 : BinOps, u : UnOps \cup {"-"}, pos : 0..2]
  \cup [f : {"bin2"}, o1 : BinOps, o2 : BinOps, sh : 1..2, u : UnOps \cup {"-"}, pos : 0..2]
  \cup (IF MaxOps >= 3 THEN [f : {"bin3"}, o1 : BinOps, o2 : BinOps, o3 : BinOps, sh : 1..5, u : {"-", "not", "neg", "is_defined", "f_abs"}] ELSE {})
  \cup [f : {"tern"}, c : 1..Len(Small), a : 1..Len(Small), b : 1..Len(Small)]
  \cup [f : {"ternx"}, c : 1..Len(TernX)]
  \cup [f : {"path"}, b : Bases, a1 : Acc \cup {"-"}, a2 : Acc \cup {"-"}, c : 0..11]
  \* an access on a PARENTHESISED and / or / ternary: the parentheses decide first, the access applies to what they yield
  \* (the operand that was not chosen is not looked at); `(e).a` is not in the documented grammar: where the engine
  \* refuses it as a syntax error nothing is demanded, where it accepts it this is what it means
  \cup [f : {"pacc"}, a : Acc, o : {"or", "and"}, l : Bases, r : Bases]
  \cup [f : {"pacct"}, a : Acc, c : {"m", "n"}, l : Bases, r : Bases]
AstOf(q) == CASE q.f = "bin1" -> Wrap(Bin(q.o1, Lit(1), Lit(2)), q.u, q.pos)
              [] q.f = "bin2" -> Wrap(Sh2(q.o1, q.o2, q.sh), q.u, q.pos)
              [] q.f = "bin3" -> Wrap(Sh3(q.o1, q.o2, q.o3, q.sh), q.u, 0)
              [] q.f = "tern" -> Tern(Small[q.c], Small[q.a], Small[q.b])
              [] q.f = "ternx" -> TernX[q.c]
              [] q.f = "path" -> Consume(PathOf(q.b, q.a1, q.a2), q.c)
              [] q.f = "pacc" -> Un(q.a, Bin(q.o, Var(q.l), Var(q.r)))
              [] q.f = "pacct" -> Un(q.a, Tern(Var(q.c), Var(q.l), Var(q.r)))
\* parameters that denote the same tree twice are skipped
Canon(q) == (q.f \in {"bin1", "bin2"} /\ q.u = "-" => q.pos = 0) /\ (q.f = "path" /\ q.a1 = "-" => q.a2 = "-")

Vals == << <<I(7), I(2), I(3), I(5)>>,
           <<I(0), I(3), Bo(TRUE), I(2)>>,
           <<St(<<"a">>), I(2), St(<<"b">>), Ar(<<I(2), St(<<"a">>)>>)>>,
           <<Undef, I(1), Bo(FALSE), Ar(<<I(1)>>)>>,
           <<NoneV, St(<<"a", "b">>), St(<<"a">>), I(0)>>,
           <<I(-3), I(4), I(0), St(<<>>)>> >>
Env == [m |-> Mp(<<"a">>, <<Mp(<<"a">>, <<I(5)>>)>>), e |-> Mp(<<"b">>, <<I(1)>>), h |-> Mp(<<"a">>, <<Undef>>), n |-> NoneV, s |-> I(3)]

VARIABLES q, done
Init == q \in Params /\ Canon(q) /\ done = FALSE
Next == ~done /\ done' = TRUE /\ UNCHANGED q
ast == AstOf(q)
\* self-consistency of the oracle: minimal and full parenthesisation are the same tree, so they must evaluate alike
\* (Parse(Unp) is not modelled; the two spellings are both replayed and must agree with Eval and with each other)
RECURSIVE Leaves(_)
Leaves(e) == CASE e.k = "lit" -> {e.i} [] e.k = "un" -> Leaves(e.e) [] e.k = "bin" -> Leaves(e.l) \cup Leaves(e.r)
               [] e.k = "tern" -> Leaves(e.c) \cup Leaves(e.a) \cup Leaves(e.b) [] OTHER -> {}
LogSound == done => \A i \in 1..Len(Vals) : LET x == Eval(ast, Vals[i], Env) IN \A j \in 1..Len(x.log) : x.log[j] \in Leaves(ast)
Emit == done /\ WF(ast) => PrintT(<<"VEC", ToJson([fam |-> q.f, min |-> Unp(ast), full |-> UnpFull(ast), nl |-> Cardinality(Leaves(ast)),
            r |-> [i \in 1..Len(Vals) |-> LET x == Eval(ast, Vals[i], Env) IN [r |-> x.r, v |-> x.v, log |-> x.log, tr |-> Truthy(x.v)]]])>>)
EmitEnv == (~done /\ q = [f |-> "ternx", c |-> 1]) => PrintT(<<"ENV", ToJson([vals |-> Vals, env |-> Env])>>)
=============================================================================
