----------------------------- MODULE MC_Fusion -----------------------------
EXTENDS Fusion, Json, IOUtils
CONSTANT MaxPath
Pairs == IF IOEnv.PAIRS = "" THEN <<>> ELSE ndJsonDeserialize(IOEnv.PAIRS)   \* [pre, post] listings from the hook
VARIABLES mode, i, vs
vars == <<mode, i, vs>>
\* mode "pair": one real (pre, post) listing pair; mode "local": one tuple of lookup outcomes
Init == \/ mode = "pair" /\ i \in 1..Len(Pairs) /\ vs = <<>>
        \/ mode = "local" /\ i = 0 /\ vs \in UNION {[1..n -> Look] : n \in 1..MaxPath} /\ Consistent(vs)
Next == UNCHANGED vars
M1 == mode = "pair" => ValidFusion(Pairs[i].pre, Pairs[i].post)
LoadEquiv == mode = "local" /\ Len(vs) >= 2 => Same(LoadPath(vs), Unfused(vs, FALSE))
WriteEquiv == mode = "local" => Same(WritePath(vs), Unfused(vs, TRUE))
\* spec -> impl: every tuple with the outcome the UNFUSED semantics assigns (the reference)
Emit == mode = "local" => PrintT(<<"VEC", ToJson([vs |-> vs, load |-> Unfused(vs, FALSE), write |-> Unfused(vs, TRUE)])>>)
=============================================================================
