CONSTANT MaxPath = 4
CONSTANT WritePathChecksLeaf = FALSE
INIT Init
NEXT Next
INVARIANT M1
INVARIANT LoadEquiv
INVARIANT WriteEquiv
INVARIANT Emit
CHECK_DEADLOCK FALSE
