CONSTANTS N = 3
  Place = "all"
  Prefixes <- PrefixesDef
INIT Init
NEXT Next
INVARIANT InvAcceptIsAcyclic
INVARIANT Emit
CHECK_DEADLOCK FALSE
