------------------------------- MODULE MC_Graph -------------------------------
(***************************************************************************)
(* C11: every digraph of extends / include edges over a small set of       *)
(* templates is an initial state: each node has at most one extends edge   *)
(* and at most one include edge, to a node, to itself, to a node only      *)
(* reachable through the fallback prefix, or to a missing template; the    *)
(* include may sit in the body, in a block or in a component body.         *)
(* Spec: accepted iff no dangling target and both relations acyclic.       *)
(***************************************************************************)
EXTENDS Registry, Json
CONSTANTS N,             \* number of nodes (2..5)
          Place          \* "all": include in body / block / component body; "body": body only
PrefixesDef == <<"p/">>
AllNames == <<"A", "p/D", "B", "C", "E">>         \* D is only reachable as `D` through the prefix (among the first three: part of every run)
Nodes == {AllNames[i] : i \in 1..N}
Written(n) == IF n = "p/D" THEN "D" ELSE n          \* how other templates write the name
Targets == {Written(n) : n \in Nodes} \cup {"", "X"}       \* X never exists
Placements == IF Place = "all" THEN {"body", "block", "comp"} ELSE {"body"}
VARIABLES g, done
\* g: node -> [ext, inc, incpos]
NodeChoices == [ext : Targets, inc : Targets, incpos : Placements]
Init == /\ g \in [Nodes -> NodeChoices]
        /\ done = FALSE
        /\ \A n \in Nodes : (g[n].inc = "" => g[n].incpos = "body")
        /\ Cardinality({k \in Nodes : g[k].incpos = "comp"}) <= 1          \* one component provider at most (names would clash)
        /\ \A m \in Nodes : (g[m].incpos = "block" => g[m].ext = "")          \* the block must exist somewhere: keep it in a root
Next == ~done /\ done' = TRUE /\ UNCHANGED g
Desc(n) == [Leaf EXCEPT !.ext = g[n].ext, !.inc = g[n].inc, !.incpos = IF g[n].inc = "" THEN "" ELSE g[n].incpos,
                        !.a = IF g[n].incpos = "block" /\ g[n].inc # "" THEN "def" ELSE "none",
                        !.comp = (g[n].incpos = "comp" /\ g[n].inc # "")]
Names5 == {AllNames[i] : i \in 1..5}
T == [n \in Names5 |-> IF n \in Nodes THEN Desc(n) ELSE Absent]
\* accepted iff nothing dangles and both relations are acyclic
InvAcceptIsAcyclic == done =>
  (Accept(T) <=> (\A n \in Nodes : ~DanglingExt(T, n) /\ ~DanglingInc(T, n) /\ ~ReachesCycle(T, ExtOf, n) /\ ~ReachesCycle(T, IncOf, n)))
Emit == done => PrintT(<<"VEC", ToJson([g |-> [n \in Nodes |-> Desc(n)], ok |-> Accept(T), fails |-> Fails(T),
                                        text |-> [n \in Nodes |-> IF Accept(T) THEN Render(T, n) ELSE ""]])>>)
=============================================================================
