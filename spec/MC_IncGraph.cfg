CONSTANT N = 3
INIT Init
NEXT Next
INVARIANT InvCycleIffNoTermination
INVARIANT Emit
CHECK_DEADLOCK FALSE
