------------------------------ MODULE MC_IncGraph ------------------------------
(***************************************************************************)
(* C11, include graphs with SEVERAL include edges per template (diamonds,  *)
(* cycles entered through a sibling, back edges that sort after an already *)
(* explored include): every assignment of a SET of include targets to N    *)
(* templates.  Accepted iff the include relation is acyclic; the text of   *)
(* an accepted template is its own marker followed by the texts of its     *)
(* targets in the order they are written (sorted by name).                 *)
(***************************************************************************)
EXTENDS Integers, Sequences, FiniteSets, TLC, Json
CONSTANT N
AllNames == <<"a", "b", "m", "z">>
Nodes == {AllNames[i] : i \in 1..N}
VARIABLES g, done
Init == g \in [Nodes -> SUBSET Nodes] /\ done = FALSE
Next == ~done /\ done' = TRUE /\ UNCHANGED g
\* reachability in at most N steps
RECURSIVE Reach(_, _)
Reach(S, k) == IF k = 0 THEN S ELSE Reach(S \cup UNION {g[x] : x \in S}, k - 1)
OnCycle(x) == x \in Reach(g[x], N)
Acyclic == \A x \in Nodes : ~OnCycle(x)
Order(S) == LET idx(x) == CHOOSE i \in 1..N : AllNames[i] = x IN
            [k \in 1..Cardinality(S) |-> CHOOSE x \in S : Cardinality({y \in S : idx(y) < idx(x)}) = k - 1]
RECURSIVE Text(_, _)
Text(x, fuel) == IF fuel = 0 THEN "!" ELSE
                 LET ts == Order(g[x]) IN
                 LET RECURSIVE Cat(_) Cat(i) == IF i > Len(ts) THEN "" ELSE Text(ts[i], fuel - 1) \o Cat(i + 1) IN
                 "L" \o x \o ";" \o Cat(1)
\* a cycle is reachable from x iff x's rendering would not terminate
InvCycleIffNoTermination == done => (Acyclic <=> \A x \in Nodes : \A y \in Reach({x}, N) : ~OnCycle(y))
Emit == done => PrintT(<<"VEC", ToJson([g |-> [x \in Nodes |-> Order(g[x])], ok |-> Acyclic, text |-> [x \in Nodes |-> IF Acyclic THEN Text(x, N + 1) ELSE ""]])>>)
=============================================================================
