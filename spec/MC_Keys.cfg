INIT Init
NEXT Next
INVARIANT InvEncodingFree
INVARIANT Emit
CHECK_DEADLOCK FALSE
