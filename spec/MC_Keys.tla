------------------------------- MODULE MC_Keys -------------------------------
EXTENDS Keys, Json
Pads == {0, 4, 5, 6, 7, 11, 12, 13}         \* filler entries: crosses the attribute-scan cutoff wherever it is set
VARIABLES ins, pad, look, done
Init == /\ ins \in {s \in SUBSET KeySet : Cardinality(s) <= 2 /\ \A a, b \in s : a # b => a.c # b.c}
        /\ pad \in Pads /\ look \in KeySet /\ done = FALSE
Next == ~done /\ done' = TRUE /\ UNCHANGED <<ins, pad, look>>
\* a lookup never depends on the encoding of the key used to look up
InvEncodingFree == done => \A other \in KeySet : other.c = look.c => Found(ins, other) = Found(ins, look)
Emit == done => PrintT(<<"VEC", ToJson([ins |-> ins, pad |-> pad, look |-> look, found |-> Found(ins, look), paths |-> Paths(look)])>>)
=============================================================================
