INIT Init
NEXT Next
INVARIANT InvEqReflexive
INVARIANT InvEqSymmetric
INVARIANT InvEqTransitive
INVARIANT InvEqIsSameData
INVARIANT InvOrdAntisymmetric
INVARIANT InvOrdTransitive
INVARIANT InvOrdEqualOnlyIfEq
INVARIANT InvPartialAgrees
INVARIANT InvTemplateAgrees
CHECK_DEADLOCK FALSE
