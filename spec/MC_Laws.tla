------------------------------- MODULE MC_Laws -------------------------------
EXTENDS Laws, Json, IOUtils
O == JsonDeserialize(IOEnv.OBS)
N == Len(O.cls)
VARIABLES i, j, k
Init == i \in 1..N /\ j \in 1..N /\ k \in 1..N
Next == UNCHANGED <<i, j, k>>
InvEqReflexive == EqReflexive(O.eq, i)
InvEqSymmetric == EqSymmetric(O.eq, i, j)
InvEqTransitive == EqTransitive(O.eq, i, j, k)
InvEqIsSameData == EqIsSameData(O.eq, O.cls, i, j)
InvOrdAntisymmetric == OrdAntisymmetric(O.tc, i, j)
InvOrdTransitive == OrdTransitive(O.tc, i, j, k)
InvOrdEqualOnlyIfEq == OrdEqualOnlyIfEq(O.tc, O.eq, i, j)
InvPartialAgrees == PartialAgrees(O.pc, O.tc, i, j)
InvTemplateAgrees == TemplateAgrees(O, i, j)
=============================================================================
