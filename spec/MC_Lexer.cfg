CONSTANT MaxLen = 3
CONSTANT CommentResets = TRUE
INIT Init
NEXT Next
INVARIANT InvRefines
INVARIANT Emit
CHECK_DEADLOCK FALSE
