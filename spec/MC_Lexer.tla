------------------------------ MODULE MC_Lexer ------------------------------
EXTENDS Lexer, Json
CONSTANT MaxLen
VARIABLES src, done
Init == src = <<>> /\ done = FALSE
Extend == ~done /\ Len(src) < MaxLen /\ \E s \in Segs : src' = Append(src, s) /\ WellFormed(src') /\ UNCHANGED done
Finish == ~done /\ src # <<>> /\ done' = TRUE /\ UNCHANGED src
Next == Extend \/ Finish
InvRefines == done => Refines(src)
Emit == done => PrintT(<<"VEC", ToJson([src |-> src, out |-> Out(src)])>>)
=============================================================================
