---- MODULE MC_Lexer_TTrace_1790382646 ----
EXTENDS Sequences, TLCExt, MC_Lexer, Toolbox, Naturals, TLC

_expression ==
    LET MC_Lexer_TEExpression == INSTANCE MC_Lexer_TEExpression
    IN MC_Lexer_TEExpression!expression
----

_trace ==
    LET MC_Lexer_TETrace == INSTANCE MC_Lexer_TETrace
    IN MC_Lexer_TETrace!trace
----

_inv ==
    ~(
        TLCGet("level") = Len(_TETrace)
        /\
        src = (<<[k |-> "expr", dl |-> FALSE, dr |-> TRUE], [k |-> "com", dl |-> FALSE, dr |-> FALSE], [k |-> "text", l |-> TRUE, c |-> FALSE, t |-> FALSE]>>)
        /\
        done = (TRUE)
    )
----

_init ==
    /\ done = _TETrace[1].done
    /\ src = _TETrace[1].src
----

_next ==
    /\ \E i,j \in DOMAIN _TETrace:
        /\ \/ /\ j = i + 1
              /\ i = TLCGet("level")
        /\ done  = _TETrace[i].done
        /\ done' = _TETrace[j].done
        /\ src  = _TETrace[i].src
        /\ src' = _TETrace[j].src

\* Uncomment the ASSUME below to write the states of the error trace
\* to the given file in Json format. Note that you can pass any tuple
\* to `JsonSerialize`. For example, a sub-sequence of _TETrace.
    \* ASSUME
    \*     LET J == INSTANCE Json
    \*         IN J!JsonSerialize("MC_Lexer_TTrace_1790382646.json", _TETrace)

=============================================================================

 Note that you can extract this module `MC_Lexer_TEExpression`
  to a dedicated file to reuse `expression` (the module in the 
  dedicated `MC_Lexer_TEExpression.tla` file takes precedence 
  over the module `MC_Lexer_TEExpression` below).

---- MODULE MC_Lexer_TEExpression ----
EXTENDS Sequences, TLCExt, MC_Lexer, Toolbox, Naturals, TLC

expression == 
    [
        \* To hide variables of the `MC_Lexer` spec from the error trace,
        \* remove the variables below.  The trace will be written in the order
        \* of the fields of this record.
        done |-> done
        ,src |-> src
        
        \* Put additional constant-, state-, and action-level expressions here:
        \* ,_stateNumber |-> _TEPosition
        \* ,_doneUnchanged |-> done = done'
        
        \* Format the `done` variable as Json value.
        \* ,_doneJson |->
        \*     LET J == INSTANCE Json
        \*     IN J!ToJson(done)
        
        \* Lastly, you may build expressions over arbitrary sets of states by
        \* leveraging the _TETrace operator.  For example, this is how to
        \* count the number of times a spec variable changed up to the current
        \* state in the trace.
        \* ,_doneModCount |->
        \*     LET F[s \in DOMAIN _TETrace] ==
        \*         IF s = 1 THEN 0
        \*         ELSE IF _TETrace[s].done # _TETrace[s-1].done
        \*             THEN 1 + F[s-1] ELSE F[s-1]
        \*     IN F[_TEPosition - 1]
    ]

=============================================================================



Parsing and semantic processing can take forever if the trace below is long.
 In this case, it is advised to uncomment the module below to deserialize the
 trace from a generated binary file.

\*
\*---- MODULE MC_Lexer_TETrace ----
\*EXTENDS IOUtils, MC_Lexer, TLC
\*
\*trace == IODeserialize("MC_Lexer_TTrace_1790382646.bin", TRUE)
\*
\*=============================================================================
\*

---- MODULE MC_Lexer_TETrace ----
EXTENDS MC_Lexer, TLC

trace == 
    <<
    ([src |-> <<>>,done |-> FALSE]),
    ([src |-> <<[k |-> "expr", dl |-> FALSE, dr |-> TRUE]>>,done |-> FALSE]),
    ([src |-> <<[k |-> "expr", dl |-> FALSE, dr |-> TRUE], [k |-> "com", dl |-> FALSE, dr |-> FALSE]>>,done |-> FALSE]),
    ([src |-> <<[k |-> "expr", dl |-> FALSE, dr |-> TRUE], [k |-> "com", dl |-> FALSE, dr |-> FALSE], [k |-> "text", l |-> TRUE, c |-> FALSE, t |-> FALSE]>>,done |-> FALSE]),
    ([src |-> <<[k |-> "expr", dl |-> FALSE, dr |-> TRUE], [k |-> "com", dl |-> FALSE, dr |-> FALSE], [k |-> "text", l |-> TRUE, c |-> FALSE, t |-> FALSE]>>,done |-> TRUE])
    >>
----


=============================================================================

---- CONFIG MC_Lexer_TTrace_1790382646 ----
CONSTANTS
    MaxLen = 3
    CommentResets = FALSE

INVARIANT
    _inv

CHECK_DEADLOCK
    \* CHECK_DEADLOCK off because of PROPERTY or INVARIANT above.
    FALSE

INIT
    _init

NEXT
    _next

CONSTANT
    _TETrace <- _trace

ALIAS
    _expression
=============================================================================
\* Generated on Sat Sep 26 00:30:47 UTC 2026