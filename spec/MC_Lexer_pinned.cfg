CONSTANT MaxLen = 3
CONSTANT CommentResets = FALSE
INIT Init
NEXT Next
INVARIANT InvRefines
CHECK_DEADLOCK FALSE
