CONSTANTS MaxChain = 3
  Slim = FALSE
  Extras = TRUE
  Prefixes <- PrefixesDef
INIT Init
NEXT Next
INVARIANT InvAlgoIsDecl
INVARIANT InvLineageShape
INVARIANT Emit
CHECK_DEADLOCK FALSE
