------------------------------ MODULE MC_Lineage ------------------------------
(***************************************************************************)
(* C04: every inheritance chain T1 <- T2 <- ... <- Tn (n <= MaxChain), every *)
(* assignment of definitions of blocks a and b (absent / defined / defined *)
(* with super()) to the levels, b written at top level, nested in a, or    *)
(* nested in a inside a filter section (a capture).                        *)
(* TLC checks that the code-shaped lineage construction equals the         *)
(* declarative one and emits, per configuration, acceptance and the text   *)
(* of every render and single-block render.                                *)
(***************************************************************************)
EXTENDS Registry, Json
CONSTANTS MaxChain,
          Extras,     \* TRUE: the sibling / three-level block shapes (sib, deep) are part of the level choices
          Slim        \* TRUE: block a only (absent / defined / defined with super()), which affords longer chains
PrefixesDef == <<>>
VARIABLES n, cfg, done, rev
\* names of the levels, root first: in lexicographic order, or against it (a child's name sorting before its parent's)
Lv == IF rev THEN <<"E", "D", "C", "B", "A">> ELSE <<"A", "B", "C", "D", "E">>
Kinds == {"none", "def", "super"}
\* per level: a, b, and where b is written: "top" | "nest" | "cap" (only meaningful when both are defined)
\* sa: super() written after the nested block (only meaningful when a calls super and b is nested in it)
LevelChoices == {c \in [a : Kinds, b : Kinds, w : {"top", "nest", "cap"}, sa : BOOLEAN, sib : BOOLEAN, deep : BOOLEAN] :
                   ((c.a = "none" \/ c.b = "none") => c.w = "top") /\ (c.sa => c.a = "super" /\ c.w # "top")
                   /\ (Slim => c.b = "none") /\ (c.sib => Extras /\ c.w = "nest" /\ c.a # "none" /\ c.b # "none" /\ ~c.sa)
                   /\ (c.deep => Extras /\ c.w = "nest" /\ c.a # "none" /\ c.b = "super" /\ ~c.sa /\ ~c.sib /\ ~Slim)}
Init == /\ n \in 1..MaxChain /\ rev \in BOOLEAN /\ (n = 1 => ~rev)
        /\ cfg \in [1..MaxChain -> LevelChoices]
        /\ \A i \in 1..MaxChain : i > n => cfg[i] = [a |-> "none", b |-> "none", w |-> "top", sa |-> FALSE, sib |-> FALSE, deep |-> FALSE]
        /\ Cardinality({i \in 1..MaxChain : cfg[i].sib \/ cfg[i].deep}) <= 1 /\ (\A i \in 1..MaxChain : (cfg[i].sib \/ cfg[i].deep) => i >= 2)      \* one child introduces the siblings
        /\ done = FALSE
Next == ~done /\ done' = TRUE /\ UNCHANGED <<n, cfg, rev>>
Desc(i) == [Leaf EXCEPT !.ext = IF i = 1 THEN "" ELSE Lv[i - 1], !.a = cfg[i].a, !.b = cfg[i].b,
                        !.nest = cfg[i].w \in {"nest", "cap"}, !.cap = cfg[i].w = "cap", !.sa = cfg[i].sa, !.sib = cfg[i].sib, !.deep = cfg[i].deep]
Names5 == {Lv[i] : i \in 1..5}
T == [m \in Names5 |-> IF \E i \in 1..n : Lv[i] = m THEN Desc(CHOOSE i \in 1..n : Lv[i] = m) ELSE Absent]
Lvls == {Lv[i] : i \in 1..n}
InvAlgoIsDecl == done /\ Accept(T) => \A m \in Lvls, blk \in {"a", "b", "c"} : AlgoLineage(T, m, blk) = Lineage(T, m, blk)
\* the most-derived definition is first; every further entry is reached through a super() call of the previous one
InvLineageShape == done /\ Accept(T) => \A m \in Lvls, blk \in {"a", "b"} :
   LET lin == Lineage(T, m, blk) IN \A k \in 1..(Len(lin) - 1) : Supers(T[lin[k]], blk) /\ Defines(T[lin[k + 1]], blk)
Emit == done => PrintT(<<"VEC", ToJson([g |-> [m \in Lvls |-> T[m]], ok |-> Accept(T), fails |-> Fails(T),
            r |-> [m \in Lvls |-> IF Accept(T) THEN [text |-> Render(T, m), lin |-> [blk \in {"a", "b", "c"} |-> Lineage(T, m, blk)],
                                                          blocks |-> [blk \in {"a", "b"} |-> RenderBlock(T, m, blk)]]
                                   ELSE [text |-> "", lin |-> [blk \in {"a", "b", "c"} |-> <<>>], blocks |-> [blk \in {"a", "b"} |-> ""]]]])>>)
=============================================================================
