INIT Init
NEXT Next
INVARIANT InvMapIteration
CHECK_DEADLOCK FALSE
