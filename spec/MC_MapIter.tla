----------------------------- MODULE MC_MapIter -----------------------------
(***************************************************************************)
(* C03, iteration over maps: "each entry of a map exactly once, with       *)
(* correct loop.index/index0/first/last/length; the else body only when    *)
(* there was nothing to iterate".  The order in which a map is visited is  *)
(* not specified, so the reference interpreter of Render.tla leaves maps   *)
(* with several entries open; here the laws are checked on OBSERVATIONS:   *)
(* the harness records, for maps of 0..N entries with keys of every kind,  *)
(* what each iteration saw, and TLC checks every record.                   *)
(*   obs = [n, keys (the map's keys, as printed), seen (seq of records     *)
(*          [k, v, index, index0, first, last, length]), else (BOOLEAN),   *)
(*          stop (0, or the index at which the body executed `break`)]     *)
(* Values are the position of the key in `keys` (v = i for keys[i]).       *)
(***************************************************************************)
EXTENDS Integers, Sequences, FiniteSets, TLC, Json, IOUtils
Obs == IF IOEnv.OBS = "" THEN <<>> ELSE ndJsonDeserialize(IOEnv.OBS)
VARIABLE i
Init == i \in 1..Len(Obs)
Next == UNCHANGED i
Expected(o) == IF o.stop = 0 THEN o.n ELSE o.stop          \* number of iterations that start
Law(o) ==
  LET s == o.seen IN
  /\ Len(s) = Expected(o)
  /\ \A a \in 1..Len(s) : \E j \in 1..Len(o.keys) : o.keys[j] = s[a].k /\ s[a].v = j          \* an entry of the map, with its own value
  /\ \A a, b \in 1..Len(s) : a # b => s[a].k # s[b].k                                       \* each entry at most once
  /\ \A a \in 1..Len(s) : /\ s[a].index = a /\ s[a].index0 = a - 1 /\ s[a].length = o.n
                          /\ s[a].first = (a = 1) /\ s[a].last = (a = o.n)
  /\ o.else = (o.n = 0)
InvMapIteration == Law(Obs[i])
=============================================================================
