INIT Init
NEXT Next
INVARIANT InvLaws
INVARIANT InvObs
INVARIANT InvThreads
CHECK_DEADLOCK FALSE
