------------------------------ MODULE MC_Output ------------------------------
EXTENDS Output, Json, IOUtils
\* (1) the laws on all small write sequences; (2) conformance of RECORDED observations of the engine;
\* (3) interleavings of concurrent renders
Obs == IF IOEnv.OBS = "" THEN <<>> ELSE ndJsonDeserialize(IOEnv.OBS)
WriteSeqs == UNION {[1..n -> 0..2] : n \in 0..3}
Fails == {[m |-> mm, k |-> kk] : mm \in {"call", "budget", "chunk"}, kk \in 0..7}
Threads == {1, 2, 3}
Prog == <<"read", "init", "write", "read", "write">>      \* per-thread program: registry reads, lazy-static use, private writes
VARIABLES mode, ws, f, i, pc, static, out
vars == <<mode, ws, f, i, pc, static, out>>
Idle == /\ pc = [t \in Threads |-> 0] /\ static = "uninit" /\ out = [t \in Threads |-> <<>>]
Init == \/ mode = "law" /\ ws \in WriteSeqs /\ f \in Fails /\ i = 0 /\ Idle
        \/ mode = "obs" /\ ws = <<>> /\ f = [m |-> "call", k |-> 0] /\ i \in 1..Len(Obs) /\ Idle
        \/ mode = "threads" /\ ws = <<>> /\ f = [m |-> "call", k |-> 0] /\ i = 0
           /\ pc = [t \in Threads |-> 1] /\ static = "uninit" /\ out = [t \in Threads |-> <<>>]
Step(t) == /\ mode = "threads" /\ pc[t] >= 1 /\ pc[t] <= Len(Prog)
           /\ LET op == Prog[pc[t]] IN
              /\ static' = IF op = "init" THEN "ready" ELSE static          \* idempotent one-time initialisation
              /\ out' = IF op = "write" THEN [out EXCEPT ![t] = Append(@, IF static = "ready" THEN "w" ELSE "BROKEN")] ELSE out
           /\ pc' = [pc EXCEPT ![t] = @ + 1]
           /\ UNCHANGED <<mode, ws, f, i>>
Next == (\E t \in Threads : Step(t)) \/ UNCHANGED vars
InvLaws == mode = "law" => PrefixLaw(ws, f) /\ OkIffComplete(ws, f) /\ \A g \in Fails : Monotone(ws, f, g)
\* each recorded observation of the engine: sizes of the write calls of the unfailing run, the failure point,
\* what the writer accepted and what the render returned
InvObs == mode = "obs" =>
  LET o == Obs[i] r == Run(o.sizes, [m |-> o.m, k |-> o.k]) IN
  /\ o.ok = r.ok /\ o.accepted = r.accepted /\ o.prefix /\ (~o.ok => o.io)
InvThreads == mode = "threads" /\ (\A t \in Threads : pc[t] > Len(Prog)) => \A t \in Threads : out[t] = <<"w", "w">>
=============================================================================
