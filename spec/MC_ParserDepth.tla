---------------------------- MODULE MC_ParserDepth ----------------------------
EXTENDS ParserDepth, Json
\* the ladder of input sizes the harness replays, with the prediction of the model for each (shape, n)
Ladder == {1, 2, 39, 40, 41, 100, 400}
EmitPredictions == (depth = 0 /\ chain = 0) => PrintT(<<"VEC", ToJson([shape |-> shape, nested |-> shape \in Nested,
                                                          p |-> [n \in Ladder |-> Predict(shape, n)]])>>)
=============================================================================
