---- MODULE MC_ParserDepth_TTrace_1790389111 ----
EXTENDS Sequences, TLCExt, Toolbox, Naturals, TLC, MC_ParserDepth

_expression ==
    LET MC_ParserDepth_TEExpression == INSTANCE MC_ParserDepth_TEExpression
    IN MC_ParserDepth_TEExpression!expression
----

_trace ==
    LET MC_ParserDepth_TETrace == INSTANCE MC_ParserDepth_TETrace
    IN MC_ParserDepth_TETrace!trace
----

_inv ==
    ~(
        TLCGet("level") = Len(_TETrace)
        /\
        chain = (401)
        /\
        depth = (0)
        /\
        shape = ("subscript_chain")
        /\
        status = ("run")
    )
----

_init ==
    /\ depth = _TETrace[1].depth
    /\ chain = _TETrace[1].chain
    /\ status = _TETrace[1].status
    /\ shape = _TETrace[1].shape
----

_next ==
    /\ \E i,j \in DOMAIN _TETrace:
        /\ \/ /\ j = i + 1
              /\ i = TLCGet("level")
        /\ depth  = _TETrace[i].depth
        /\ depth' = _TETrace[j].depth
        /\ chain  = _TETrace[i].chain
        /\ chain' = _TETrace[j].chain
        /\ status  = _TETrace[i].status
        /\ status' = _TETrace[j].status
        /\ shape  = _TETrace[i].shape
        /\ shape' = _TETrace[j].shape

\* Uncomment the ASSUME below to write the states of the error trace
\* to the given file in Json format. Note that you can pass any tuple
\* to `JsonSerialize`. For example, a sub-sequence of _TETrace.
    \* ASSUME
    \*     LET J == INSTANCE Json
    \*         IN J!JsonSerialize("MC_ParserDepth_TTrace_1790389111.json", _TETrace)

=============================================================================

 Note that you can extract this module `MC_ParserDepth_TEExpression`
  to a dedicated file to reuse `expression` (the module in the 
  dedicated `MC_ParserDepth_TEExpression.tla` file takes precedence 
  over the module `MC_ParserDepth_TEExpression` below).

---- MODULE MC_ParserDepth_TEExpression ----
EXTENDS Sequences, TLCExt, Toolbox, Naturals, TLC, MC_ParserDepth

expression == 
    [
        \* To hide variables of the `MC_ParserDepth` spec from the error trace,
        \* remove the variables below.  The trace will be written in the order
        \* of the fields of this record.
        depth |-> depth
        ,chain |-> chain
        ,status |-> status
        ,shape |-> shape
        
        \* Put additional constant-, state-, and action-level expressions here:
        \* ,_stateNumber |-> _TEPosition
        \* ,_depthUnchanged |-> depth = depth'
        
        \* Format the `depth` variable as Json value.
        \* ,_depthJson |->
        \*     LET J == INSTANCE Json
        \*     IN J!ToJson(depth)
        
        \* Lastly, you may build expressions over arbitrary sets of states by
        \* leveraging the _TETrace operator.  For example, this is how to
        \* count the number of times a spec variable changed up to the current
        \* state in the trace.
        \* ,_depthModCount |->
        \*     LET F[s \in DOMAIN _TETrace] ==
        \*         IF s = 1 THEN 0
        \*         ELSE IF _TETrace[s].depth # _TETrace[s-1].depth
        \*             THEN 1 + F[s-1] ELSE F[s-1]
        \*     IN F[_TEPosition - 1]
    ]

=============================================================================



Parsing and semantic processing can take forever if the trace below is long.
 In this case, it is advised to uncomment the module below to deserialize the
 trace from a generated binary file.

\*
\*---- MODULE MC_ParserDepth_TETrace ----
\*EXTENDS IOUtils, TLC, MC_ParserDepth
\*
\*trace == IODeserialize("MC_ParserDepth_TTrace_1790389111.bin", TRUE)
\*
\*=============================================================================
\*

---- MODULE MC_ParserDepth_TETrace ----
EXTENDS TLC, MC_ParserDepth

trace == 
    <<
    ([chain |-> 0,depth |-> 0,shape |-> "subscript_chain",status |-> "run"]),
    ([chain |-> 1,depth |-> 0,shape |-> "subscript_chain",status |-> "run"]),
    ([chain |-> 2,depth |-> 0,shape |-> "subscript_chain",status |-> "run"]),
    ([chain |-> 3,depth |-> 0,shape |-> "subscript_chain",status |-> "run"]),
    ([chain |-> 4,depth |-> 0,shape |-> "subscript_chain",status |-> "run"]),
    ([chain |-> 5,depth |-> 0,shape |-> "subscript_chain",status |-> "run"]),
    ([chain |-> 6,depth |-> 0,shape |-> "subscript_chain",status |-> "run"]),
    ([chain |-> 7,depth |-> 0,shape |-> "subscript_chain",status |-> "run"]),
    ([chain |-> 8,depth |-> 0,shape |-> "subscript_chain",status |-> "run"]),
    ([chain |-> 9,depth |-> 0,shape |-> "subscript_chain",status |-> "run"]),
    ([chain |-> 10,depth |-> 0,shape |-> "subscript_chain",status |-> "run"]),
    ([chain |-> 11,depth |-> 0,shape |-> "subscript_chain",status |-> "run"]),
    ([chain |-> 12,depth |-> 0,shape |-> "subscript_chain",status |-> "run"]),
    ([chain |-> 13,depth |-> 0,shape |-> "subscript_chain",status |-> "run"]),
    ([chain |-> 14,depth |-> 0,shape |-> "subscript_chain",status |-> "run"]),
    ([chain |-> 15,depth |-> 0,shape |-> "subscript_chain",status |-> "run"]),
    ([chain |-> 16,depth |-> 0,shape |-> "subscript_chain",status |-> "run"]),
    ([chain |-> 17,depth |-> 0,shape |-> "subscript_chain",status |-> "run"]),
    ([chain |-> 18,depth |-> 0,shape |-> "subscript_chain",status |-> "run"]),
    ([chain |-> 19,depth |-> 0,shape |-> "subscript_chain",status |-> "run"]),
    ([chain |-> 20,depth |-> 0,shape |-> "subscript_chain",status |-> "run"]),
    ([chain |-> 21,depth |-> 0,shape |-> "subscript_chain",status |-> "run"]),
    ([chain |-> 22,depth |-> 0,shape |-> "subscript_chain",status |-> "run"]),
    ([chain |-> 23,depth |-> 0,shape |-> "subscript_chain",status |-> "run"]),
    ([chain |-> 24,depth |-> 0,shape |-> "subscript_chain",status |-> "run"]),
    ([chain |-> 25,depth |-> 0,shape |-> "subscript_chain",status |-> "run"]),
    ([chain |-> 26,depth |-> 0,shape |-> "subscript_chain",status |-> "run"]),
    ([chain |-> 27,depth |-> 0,shape |-> "subscript_chain",status |-> "run"]),
    ([chain |-> 28,depth |-> 0,shape |-> "subscript_chain",status |-> "run"]),
    ([chain |-> 29,depth |-> 0,shape |-> "subscript_chain",status |-> "run"]),
    ([chain |-> 30,depth |-> 0,shape |-> "subscript_chain",status |-> "run"]),
    ([chain |-> 31,depth |-> 0,shape |-> "subscript_chain",status |-> "run"]),
    ([chain |-> 32,depth |-> 0,shape |-> "subscript_chain",status |-> "run"]),
    ([chain |-> 33,depth |-> 0,shape |-> "subscript_chain",status |-> "run"]),
    ([chain |-> 34,depth |-> 0,shape |-> "subscript_chain",status |-> "run"]),
    ([chain |-> 35,depth |-> 0,shape |-> "subscript_chain",status |-> "run"]),
    ([chain |-> 36,depth |-> 0,shape |-> "subscript_chain",status |-> "run"]),
    ([chain |-> 37,depth |-> 0,shape |-> "subscript_chain",status |-> "run"]),
    ([chain |-> 38,depth |-> 0,shape |-> "subscript_chain",status |-> "run"]),
    ([chain |-> 39,depth |-> 0,shape |-> "subscript_chain",status |-> "run"]),
    ([chain |-> 40,depth |-> 0,shape |-> "subscript_chain",status |-> "run"]),
    ([chain |-> 41,depth |-> 0,shape |-> "subscript_chain",status |-> "run"]),
    ([chain |-> 42,depth |-> 0,shape |-> "subscript_chain",status |-> "run"]),
    ([chain |-> 43,depth |-> 0,shape |-> "subscript_chain",status |-> "run"]),
    ([chain |-> 44,depth |-> 0,shape |-> "subscript_chain",status |-> "run"]),
    ([chain |-> 45,depth |-> 0,shape |-> "subscript_chain",status |-> "run"]),
    ([chain |-> 46,depth |-> 0,shape |-> "subscript_chain",status |-> "run"]),
    ([chain |-> 47,depth |-> 0,shape |-> "subscript_chain",status |-> "run"]),
    ([chain |-> 48,depth |-> 0,shape |-> "subscript_chain",status |-> "run"]),
    ([chain |-> 49,depth |-> 0,shape |-> "subscript_chain",status |-> "run"]),
    ([chain |-> 50,depth |-> 0,shape |-> "subscript_chain",status |-> "run"]),
    ([chain |-> 51,depth |-> 0,shape |-> "subscript_chain",status |-> "run"]),
    ([chain |-> 52,depth |-> 0,shape |-> "subscript_chain",status |-> "run"]),
    ([chain |-> 53,depth |-> 0,shape |-> "subscript_chain",status |-> "run"]),
    ([chain |-> 54,depth |-> 0,shape |-> "subscript_chain",status |-> "run"]),
    ([chain |-> 55,depth |-> 0,shape |-> "subscript_chain",status |-> "run"]),
    ([chain |-> 56,depth |-> 0,shape |-> "subscript_chain",status |-> "run"]),
    ([chain |-> 57,depth |-> 0,shape |-> "subscript_chain",status |-> "run"]),
    ([chain |-> 58,depth |-> 0,shape |-> "subscript_chain",status |-> "run"]),
    ([chain |-> 59,depth |-> 0,shape |-> "subscript_chain",status |-> "run"]),
    ([chain |-> 60,depth |-> 0,shape |-> "subscript_chain",status |-> "run"]),
    ([chain |-> 61,depth |-> 0,shape |-> "subscript_chain",status |-> "run"]),
    ([chain |-> 62,depth |-> 0,shape |-> "subscript_chain",status |-> "run"]),
    ([chain |-> 63,depth |-> 0,shape |-> "subscript_chain",status |-> "run"]),
    ([chain |-> 64,depth |-> 0,shape |-> "subscript_chain",status |-> "run"]),
    ([chain |-> 65,depth |-> 0,shape |-> "subscript_chain",status |-> "run"]),
    ([chain |-> 66,depth |-> 0,shape |-> "subscript_chain",status |-> "run"]),
    ([chain |-> 67,depth |-> 0,shape |-> "subscript_chain",status |-> "run"]),
    ([chain |-> 68,depth |-> 0,shape |-> "subscript_chain",status |-> "run"]),
    ([chain |-> 69,depth |-> 0,shape |-> "subscript_chain",status |-> "run"]),
    ([chain |-> 70,depth |-> 0,shape |-> "subscript_chain",status |-> "run"]),
    ([chain |-> 71,depth |-> 0,shape |-> "subscript_chain",status |-> "run"]),
    ([chain |-> 72,depth |-> 0,shape |-> "subscript_chain",status |-> "run"]),
    ([chain |-> 73,depth |-> 0,shape |-> "subscript_chain",status |-> "run"]),
    ([chain |-> 74,depth |-> 0,shape |-> "subscript_chain",status |-> "run"]),
    ([chain |-> 75,depth |-> 0,shape |-> "subscript_chain",status |-> "run"]),
    ([chain |-> 76,depth |-> 0,shape |-> "subscript_chain",status |-> "run"]),
    ([chain |-> 77,depth |-> 0,shape |-> "subscript_chain",status |-> "run"]),
    ([chain |-> 78,depth |-> 0,shape |-> "subscript_chain",status |-> "run"]),
    ([chain |-> 79,depth |-> 0,shape |-> "subscript_chain",status |-> "run"]),
    ([chain |-> 80,depth |-> 0,shape |-> "subscript_chain",status |-> "run"]),
    ([chain |-> 81,depth |-> 0,shape |-> "subscript_chain",status |-> "run"]),
    ([chain |-> 82,depth |-> 0,shape |-> "subscript_chain",status |-> "run"]),
    ([chain |-> 83,depth |-> 0,shape |-> "subscript_chain",status |-> "run"]),
    ([chain |-> 84,depth |-> 0,shape |-> "subscript_chain",status |-> "run"]),
    ([chain |-> 85,depth |-> 0,shape |-> "subscript_chain",status |-> "run"]),
    ([chain |-> 86,depth |-> 0,shape |-> "subscript_chain",status |-> "run"]),
    ([chain |-> 87,depth |-> 0,shape |-> "subscript_chain",status |-> "run"]),
    ([chain |-> 88,depth |-> 0,shape |-> "subscript_chain",status |-> "run"]),
    ([chain |-> 89,depth |-> 0,shape |-> "subscript_chain",status |-> "run"]),
    ([chain |-> 90,depth |-> 0,shape |-> "subscript_chain",status |-> "run"]),
    ([chain |-> 91,depth |-> 0,shape |-> "subscript_chain",status |-> "run"]),
    ([chain |-> 92,depth |-> 0,shape |-> "subscript_chain",status |-> "run"]),
    ([chain |-> 93,depth |-> 0,shape |-> "subscript_chain",status |-> "run"]),
    ([chain |-> 94,depth |-> 0,shape |-> "subscript_chain",status |-> "run"]),
    ([chain |-> 95,depth |-> 0,shape |-> "subscript_chain",status |-> "run"]),
    ([chain |-> 96,depth |-> 0,shape |-> "subscript_chain",status |-> "run"]),
    ([chain |-> 97,depth |-> 0,shape |-> "subscript_chain",status |-> "run"]),
    ([chain |-> 98,depth |-> 0,shape |-> "subscript_chain",status |-> "run"]),
    ([chain |-> 99,depth |-> 0,shape |-> "subscript_chain",status |-> "run"]),
    ([chain |-> 100,depth |-> 0,shape |-> "subscript_chain",status |-> "run"]),
    ([chain |-> 101,depth |-> 0,shape |-> "subscript_chain",status |-> "run"]),
    ([chain |-> 102,depth |-> 0,shape |-> "subscript_chain",status |-> "run"]),
    ([chain |-> 103,depth |-> 0,shape |-> "subscript_chain",status |-> "run"]),
    ([chain |-> 104,depth |-> 0,shape |-> "subscript_chain",status |-> "run"]),
    ([chain |-> 105,depth |-> 0,shape |-> "subscript_chain",status |-> "run"]),
    ([chain |-> 106,depth |-> 0,shape |-> "subscript_chain",status |-> "run"]),
    ([chain |-> 107,depth |-> 0,shape |-> "subscript_chain",status |-> "run"]),
    ([chain |-> 108,depth |-> 0,shape |-> "subscript_chain",status |-> "run"]),
    ([chain |-> 109,depth |-> 0,shape |-> "subscript_chain",status |-> "run"]),
    ([chain |-> 110,depth |-> 0,shape |-> "subscript_chain",status |-> "run"]),
    ([chain |-> 111,depth |-> 0,shape |-> "subscript_chain",status |-> "run"]),
    ([chain |-> 112,depth |-> 0,shape |-> "subscript_chain",status |-> "run"]),
    ([chain |-> 113,depth |-> 0,shape |-> "subscript_chain",status |-> "run"]),
    ([chain |-> 114,depth |-> 0,shape |-> "subscript_chain",status |-> "run"]),
    ([chain |-> 115,depth |-> 0,shape |-> "subscript_chain",status |-> "run"]),
    ([chain |-> 116,depth |-> 0,shape |-> "subscript_chain",status |-> "run"]),
    ([chain |-> 117,depth |-> 0,shape |-> "subscript_chain",status |-> "run"]),
    ([chain |-> 118,depth |-> 0,shape |-> "subscript_chain",status |-> "run"]),
    ([chain |-> 119,depth |-> 0,shape |-> "subscript_chain",status |-> "run"]),
    ([chain |-> 120,depth |-> 0,shape |-> "subscript_chain",status |-> "run"]),
    ([chain |-> 121,depth |-> 0,shape |-> "subscript_chain",status |-> "run"]),
    ([chain |-> 122,depth |-> 0,shape |-> "subscript_chain",status |-> "run"]),
    ([chain |-> 123,depth |-> 0,shape |-> "subscript_chain",status |-> "run"]),
    ([chain |-> 124,depth |-> 0,shape |-> "subscript_chain",status |-> "run"]),
    ([chain |-> 125,depth |-> 0,shape |-> "subscript_chain",status |-> "run"]),
    ([chain |-> 126,depth |-> 0,shape |-> "subscript_chain",status |-> "run"]),
    ([chain |-> 127,depth |-> 0,shape |-> "subscript_chain",status |-> "run"]),
    ([chain |-> 128,depth |-> 0,shape |-> "subscript_chain",status |-> "run"]),
    ([chain |-> 129,depth |-> 0,shape |-> "subscript_chain",status |-> "run"]),
    ([chain |-> 130,depth |-> 0,shape |-> "subscript_chain",status |-> "run"]),
    ([chain |-> 131,depth |-> 0,shape |-> "subscript_chain",status |-> "run"]),
    ([chain |-> 132,depth |-> 0,shape |-> "subscript_chain",status |-> "run"]),
    ([chain |-> 133,depth |-> 0,shape |-> "subscript_chain",status |-> "run"]),
    ([chain |-> 134,depth |-> 0,shape |-> "subscript_chain",status |-> "run"]),
    ([chain |-> 135,depth |-> 0,shape |-> "subscript_chain",status |-> "run"]),
    ([chain |-> 136,depth |-> 0,shape |-> "subscript_chain",status |-> "run"]),
    ([chain |-> 137,depth |-> 0,shape |-> "subscript_chain",status |-> "run"]),
    ([chain |-> 138,depth |-> 0,shape |-> "subscript_chain",status |-> "run"]),
    ([chain |-> 139,depth |-> 0,shape |-> "subscript_chain",status |-> "run"]),
    ([chain |-> 140,depth |-> 0,shape |-> "subscript_chain",status |-> "run"]),
    ([chain |-> 141,depth |-> 0,shape |-> "subscript_chain",status |-> "run"]),
    ([chain |-> 142,depth |-> 0,shape |-> "subscript_chain",status |-> "run"]),
    ([chain |-> 143,depth |-> 0,shape |-> "subscript_chain",status |-> "run"]),
    ([chain |-> 144,depth |-> 0,shape |-> "subscript_chain",status |-> "run"]),
    ([chain |-> 145,depth |-> 0,shape |-> "subscript_chain",status |-> "run"]),
    ([chain |-> 146,depth |-> 0,shape |-> "subscript_chain",status |-> "run"]),
    ([chain |-> 147,depth |-> 0,shape |-> "subscript_chain",status |-> "run"]),
    ([chain |-> 148,depth |-> 0,shape |-> "subscript_chain",status |-> "run"]),
    ([chain |-> 149,depth |-> 0,shape |-> "subscript_chain",status |-> "run"]),
    ([chain |-> 150,depth |-> 0,shape |-> "subscript_chain",status |-> "run"]),
    ([chain |-> 151,depth |-> 0,shape |-> "subscript_chain",status |-> "run"]),
    ([chain |-> 152,depth |-> 0,shape |-> "subscript_chain",status |-> "run"]),
    ([chain |-> 153,depth |-> 0,shape |-> "subscript_chain",status |-> "run"]),
    ([chain |-> 154,depth |-> 0,shape |-> "subscript_chain",status |-> "run"]),
    ([chain |-> 155,depth |-> 0,shape |-> "subscript_chain",status |-> "run"]),
    ([chain |-> 156,depth |-> 0,shape |-> "subscript_chain",status |-> "run"]),
    ([chain |-> 157,depth |-> 0,shape |-> "subscript_chain",status |-> "run"]),
    ([chain |-> 158,depth |-> 0,shape |-> "subscript_chain",status |-> "run"]),
    ([chain |-> 159,depth |-> 0,shape |-> "subscript_chain",status |-> "run"]),
    ([chain |-> 160,depth |-> 0,shape |-> "subscript_chain",status |-> "run"]),
    ([chain |-> 161,depth |-> 0,shape |-> "subscript_chain",status |-> "run"]),
    ([chain |-> 162,depth |-> 0,shape |-> "subscript_chain",status |-> "run"]),
    ([chain |-> 163,depth |-> 0,shape |-> "subscript_chain",status |-> "run"]),
    ([chain |-> 164,depth |-> 0,shape |-> "subscript_chain",status |-> "run"]),
    ([chain |-> 165,depth |-> 0,shape |-> "subscript_chain",status |-> "run"]),
    ([chain |-> 166,depth |-> 0,shape |-> "subscript_chain",status |-> "run"]),
    ([chain |-> 167,depth |-> 0,shape |-> "subscript_chain",status |-> "run"]),
    ([chain |-> 168,depth |-> 0,shape |-> "subscript_chain",status |-> "run"]),
    ([chain |-> 169,depth |-> 0,shape |-> "subscript_chain",status |-> "run"]),
    ([chain |-> 170,depth |-> 0,shape |-> "subscript_chain",status |-> "run"]),
    ([chain |-> 171,depth |-> 0,shape |-> "subscript_chain",status |-> "run"]),
    ([chain |-> 172,depth |-> 0,shape |-> "subscript_chain",status |-> "run"]),
    ([chain |-> 173,depth |-> 0,shape |-> "subscript_chain",status |-> "run"]),
    ([chain |-> 174,depth |-> 0,shape |-> "subscript_chain",status |-> "run"]),
    ([chain |-> 175,depth |-> 0,shape |-> "subscript_chain",status |-> "run"]),
    ([chain |-> 176,depth |-> 0,shape |-> "subscript_chain",status |-> "run"]),
    ([chain |-> 177,depth |-> 0,shape |-> "subscript_chain",status |-> "run"]),
    ([chain |-> 178,depth |-> 0,shape |-> "subscript_chain",status |-> "run"]),
    ([chain |-> 179,depth |-> 0,shape |-> "subscript_chain",status |-> "run"]),
    ([chain |-> 180,depth |-> 0,shape |-> "subscript_chain",status |-> "run"]),
    ([chain |-> 181,depth |-> 0,shape |-> "subscript_chain",status |-> "run"]),
    ([chain |-> 182,depth |-> 0,shape |-> "subscript_chain",status |-> "run"]),
    ([chain |-> 183,depth |-> 0,shape |-> "subscript_chain",status |-> "run"]),
    ([chain |-> 184,depth |-> 0,shape |-> "subscript_chain",status |-> "run"]),
    ([chain |-> 185,depth |-> 0,shape |-> "subscript_chain",status |-> "run"]),
    ([chain |-> 186,depth |-> 0,shape |-> "subscript_chain",status |-> "run"]),
    ([chain |-> 187,depth |-> 0,shape |-> "subscript_chain",status |-> "run"]),
    ([chain |-> 188,depth |-> 0,shape |-> "subscript_chain",status |-> "run"]),
    ([chain |-> 189,depth |-> 0,shape |-> "subscript_chain",status |-> "run"]),
    ([chain |-> 190,depth |-> 0,shape |-> "subscript_chain",status |-> "run"]),
    ([chain |-> 191,depth |-> 0,shape |-> "subscript_chain",status |-> "run"]),
    ([chain |-> 192,depth |-> 0,shape |-> "subscript_chain",status |-> "run"]),
    ([chain |-> 193,depth |-> 0,shape |-> "subscript_chain",status |-> "run"]),
    ([chain |-> 194,depth |-> 0,shape |-> "subscript_chain",status |-> "run"]),
    ([chain |-> 195,depth |-> 0,shape |-> "subscript_chain",status |-> "run"]),
    ([chain |-> 196,depth |-> 0,shape |-> "subscript_chain",status |-> "run"]),
    ([chain |-> 197,depth |-> 0,shape |-> "subscript_chain",status |-> "run"]),
    ([chain |-> 198,depth |-> 0,shape |-> "subscript_chain",status |-> "run"]),
    ([chain |-> 199,depth |-> 0,shape |-> "subscript_chain",status |-> "run"]),
    ([chain |-> 200,depth |-> 0,shape |-> "subscript_chain",status |-> "run"]),
    ([chain |-> 201,depth |-> 0,shape |-> "subscript_chain",status |-> "run"]),
    ([chain |-> 202,depth |-> 0,shape |-> "subscript_chain",status |-> "run"]),
    ([chain |-> 203,depth |-> 0,shape |-> "subscript_chain",status |-> "run"]),
    ([chain |-> 204,depth |-> 0,shape |-> "subscript_chain",status |-> "run"]),
    ([chain |-> 205,depth |-> 0,shape |-> "subscript_chain",status |-> "run"]),
    ([chain |-> 206,depth |-> 0,shape |-> "subscript_chain",status |-> "run"]),
    ([chain |-> 207,depth |-> 0,shape |-> "subscript_chain",status |-> "run"]),
    ([chain |-> 208,depth |-> 0,shape |-> "subscript_chain",status |-> "run"]),
    ([chain |-> 209,depth |-> 0,shape |-> "subscript_chain",status |-> "run"]),
    ([chain |-> 210,depth |-> 0,shape |-> "subscript_chain",status |-> "run"]),
    ([chain |-> 211,depth |-> 0,shape |-> "subscript_chain",status |-> "run"]),
    ([chain |-> 212,depth |-> 0,shape |-> "subscript_chain",status |-> "run"]),
    ([chain |-> 213,depth |-> 0,shape |-> "subscript_chain",status |-> "run"]),
    ([chain |-> 214,depth |-> 0,shape |-> "subscript_chain",status |-> "run"]),
    ([chain |-> 215,depth |-> 0,shape |-> "subscript_chain",status |-> "run"]),
    ([chain |-> 216,depth |-> 0,shape |-> "subscript_chain",status |-> "run"]),
    ([chain |-> 217,depth |-> 0,shape |-> "subscript_chain",status |-> "run"]),
    ([chain |-> 218,depth |-> 0,shape |-> "subscript_chain",status |-> "run"]),
    ([chain |-> 219,depth |-> 0,shape |-> "subscript_chain",status |-> "run"]),
    ([chain |-> 220,depth |-> 0,shape |-> "subscript_chain",status |-> "run"]),
    ([chain |-> 221,depth |-> 0,shape |-> "subscript_chain",status |-> "run"]),
    ([chain |-> 222,depth |-> 0,shape |-> "subscript_chain",status |-> "run"]),
    ([chain |-> 223,depth |-> 0,shape |-> "subscript_chain",status |-> "run"]),
    ([chain |-> 224,depth |-> 0,shape |-> "subscript_chain",status |-> "run"]),
    ([chain |-> 225,depth |-> 0,shape |-> "subscript_chain",status |-> "run"]),
    ([chain |-> 226,depth |-> 0,shape |-> "subscript_chain",status |-> "run"]),
    ([chain |-> 227,depth |-> 0,shape |-> "subscript_chain",status |-> "run"]),
    ([chain |-> 228,depth |-> 0,shape |-> "subscript_chain",status |-> "run"]),
    ([chain |-> 229,depth |-> 0,shape |-> "subscript_chain",status |-> "run"]),
    ([chain |-> 230,depth |-> 0,shape |-> "subscript_chain",status |-> "run"]),
    ([chain |-> 231,depth |-> 0,shape |-> "subscript_chain",status |-> "run"]),
    ([chain |-> 232,depth |-> 0,shape |-> "subscript_chain",status |-> "run"]),
    ([chain |-> 233,depth |-> 0,shape |-> "subscript_chain",status |-> "run"]),
    ([chain |-> 234,depth |-> 0,shape |-> "subscript_chain",status |-> "run"]),
    ([chain |-> 235,depth |-> 0,shape |-> "subscript_chain",status |-> "run"]),
    ([chain |-> 236,depth |-> 0,shape |-> "subscript_chain",status |-> "run"]),
    ([chain |-> 237,depth |-> 0,shape |-> "subscript_chain",status |-> "run"]),
    ([chain |-> 238,depth |-> 0,shape |-> "subscript_chain",status |-> "run"]),
    ([chain |-> 239,depth |-> 0,shape |-> "subscript_chain",status |-> "run"]),
    ([chain |-> 240,depth |-> 0,shape |-> "subscript_chain",status |-> "run"]),
    ([chain |-> 241,depth |-> 0,shape |-> "subscript_chain",status |-> "run"]),
    ([chain |-> 242,depth |-> 0,shape |-> "subscript_chain",status |-> "run"]),
    ([chain |-> 243,depth |-> 0,shape |-> "subscript_chain",status |-> "run"]),
    ([chain |-> 244,depth |-> 0,shape |-> "subscript_chain",status |-> "run"]),
    ([chain |-> 245,depth |-> 0,shape |-> "subscript_chain",status |-> "run"]),
    ([chain |-> 246,depth |-> 0,shape |-> "subscript_chain",status |-> "run"]),
    ([chain |-> 247,depth |-> 0,shape |-> "subscript_chain",status |-> "run"]),
    ([chain |-> 248,depth |-> 0,shape |-> "subscript_chain",status |-> "run"]),
    ([chain |-> 249,depth |-> 0,shape |-> "subscript_chain",status |-> "run"]),
    ([chain |-> 250,depth |-> 0,shape |-> "subscript_chain",status |-> "run"]),
    ([chain |-> 251,depth |-> 0,shape |-> "subscript_chain",status |-> "run"]),
    ([chain |-> 252,depth |-> 0,shape |-> "subscript_chain",status |-> "run"]),
    ([chain |-> 253,depth |-> 0,shape |-> "subscript_chain",status |-> "run"]),
    ([chain |-> 254,depth |-> 0,shape |-> "subscript_chain",status |-> "run"]),
    ([chain |-> 255,depth |-> 0,shape |-> "subscript_chain",status |-> "run"]),
    ([chain |-> 256,depth |-> 0,shape |-> "subscript_chain",status |-> "run"]),
    ([chain |-> 257,depth |-> 0,shape |-> "subscript_chain",status |-> "run"]),
    ([chain |-> 258,depth |-> 0,shape |-> "subscript_chain",status |-> "run"]),
    ([chain |-> 259,depth |-> 0,shape |-> "subscript_chain",status |-> "run"]),
    ([chain |-> 260,depth |-> 0,shape |-> "subscript_chain",status |-> "run"]),
    ([chain |-> 261,depth |-> 0,shape |-> "subscript_chain",status |-> "run"]),
    ([chain |-> 262,depth |-> 0,shape |-> "subscript_chain",status |-> "run"]),
    ([chain |-> 263,depth |-> 0,shape |-> "subscript_chain",status |-> "run"]),
    ([chain |-> 264,depth |-> 0,shape |-> "subscript_chain",status |-> "run"]),
    ([chain |-> 265,depth |-> 0,shape |-> "subscript_chain",status |-> "run"]),
    ([chain |-> 266,depth |-> 0,shape |-> "subscript_chain",status |-> "run"]),
    ([chain |-> 267,depth |-> 0,shape |-> "subscript_chain",status |-> "run"]),
    ([chain |-> 268,depth |-> 0,shape |-> "subscript_chain",status |-> "run"]),
    ([chain |-> 269,depth |-> 0,shape |-> "subscript_chain",status |-> "run"]),
    ([chain |-> 270,depth |-> 0,shape |-> "subscript_chain",status |-> "run"]),
    ([chain |-> 271,depth |-> 0,shape |-> "subscript_chain",status |-> "run"]),
    ([chain |-> 272,depth |-> 0,shape |-> "subscript_chain",status |-> "run"]),
    ([chain |-> 273,depth |-> 0,shape |-> "subscript_chain",status |-> "run"]),
    ([chain |-> 274,depth |-> 0,shape |-> "subscript_chain",status |-> "run"]),
    ([chain |-> 275,depth |-> 0,shape |-> "subscript_chain",status |-> "run"]),
    ([chain |-> 276,depth |-> 0,shape |-> "subscript_chain",status |-> "run"]),
    ([chain |-> 277,depth |-> 0,shape |-> "subscript_chain",status |-> "run"]),
    ([chain |-> 278,depth |-> 0,shape |-> "subscript_chain",status |-> "run"]),
    ([chain |-> 279,depth |-> 0,shape |-> "subscript_chain",status |-> "run"]),
    ([chain |-> 280,depth |-> 0,shape |-> "subscript_chain",status |-> "run"]),
    ([chain |-> 281,depth |-> 0,shape |-> "subscript_chain",status |-> "run"]),
    ([chain |-> 282,depth |-> 0,shape |-> "subscript_chain",status |-> "run"]),
    ([chain |-> 283,depth |-> 0,shape |-> "subscript_chain",status |-> "run"]),
    ([chain |-> 284,depth |-> 0,shape |-> "subscript_chain",status |-> "run"]),
    ([chain |-> 285,depth |-> 0,shape |-> "subscript_chain",status |-> "run"]),
    ([chain |-> 286,depth |-> 0,shape |-> "subscript_chain",status |-> "run"]),
    ([chain |-> 287,depth |-> 0,shape |-> "subscript_chain",status |-> "run"]),
    ([chain |-> 288,depth |-> 0,shape |-> "subscript_chain",status |-> "run"]),
    ([chain |-> 289,depth |-> 0,shape |-> "subscript_chain",status |-> "run"]),
    ([chain |-> 290,depth |-> 0,shape |-> "subscript_chain",status |-> "run"]),
    ([chain |-> 291,depth |-> 0,shape |-> "subscript_chain",status |-> "run"]),
    ([chain |-> 292,depth |-> 0,shape |-> "subscript_chain",status |-> "run"]),
    ([chain |-> 293,depth |-> 0,shape |-> "subscript_chain",status |-> "run"]),
    ([chain |-> 294,depth |-> 0,shape |-> "subscript_chain",status |-> "run"]),
    ([chain |-> 295,depth |-> 0,shape |-> "subscript_chain",status |-> "run"]),
    ([chain |-> 296,depth |-> 0,shape |-> "subscript_chain",status |-> "run"]),
    ([chain |-> 297,depth |-> 0,shape |-> "subscript_chain",status |-> "run"]),
    ([chain |-> 298,depth |-> 0,shape |-> "subscript_chain",status |-> "run"]),
    ([chain |-> 299,depth |-> 0,shape |-> "subscript_chain",status |-> "run"]),
    ([chain |-> 300,depth |-> 0,shape |-> "subscript_chain",status |-> "run"]),
    ([chain |-> 301,depth |-> 0,shape |-> "subscript_chain",status |-> "run"]),
    ([chain |-> 302,depth |-> 0,shape |-> "subscript_chain",status |-> "run"]),
    ([chain |-> 303,depth |-> 0,shape |-> "subscript_chain",status |-> "run"]),
    ([chain |-> 304,depth |-> 0,shape |-> "subscript_chain",status |-> "run"]),
    ([chain |-> 305,depth |-> 0,shape |-> "subscript_chain",status |-> "run"]),
    ([chain |-> 306,depth |-> 0,shape |-> "subscript_chain",status |-> "run"]),
    ([chain |-> 307,depth |-> 0,shape |-> "subscript_chain",status |-> "run"]),
    ([chain |-> 308,depth |-> 0,shape |-> "subscript_chain",status |-> "run"]),
    ([chain |-> 309,depth |-> 0,shape |-> "subscript_chain",status |-> "run"]),
    ([chain |-> 310,depth |-> 0,shape |-> "subscript_chain",status |-> "run"]),
    ([chain |-> 311,depth |-> 0,shape |-> "subscript_chain",status |-> "run"]),
    ([chain |-> 312,depth |-> 0,shape |-> "subscript_chain",status |-> "run"]),
    ([chain |-> 313,depth |-> 0,shape |-> "subscript_chain",status |-> "run"]),
    ([chain |-> 314,depth |-> 0,shape |-> "subscript_chain",status |-> "run"]),
    ([chain |-> 315,depth |-> 0,shape |-> "subscript_chain",status |-> "run"]),
    ([chain |-> 316,depth |-> 0,shape |-> "subscript_chain",status |-> "run"]),
    ([chain |-> 317,depth |-> 0,shape |-> "subscript_chain",status |-> "run"]),
    ([chain |-> 318,depth |-> 0,shape |-> "subscript_chain",status |-> "run"]),
    ([chain |-> 319,depth |-> 0,shape |-> "subscript_chain",status |-> "run"]),
    ([chain |-> 320,depth |-> 0,shape |-> "subscript_chain",status |-> "run"]),
    ([chain |-> 321,depth |-> 0,shape |-> "subscript_chain",status |-> "run"]),
    ([chain |-> 322,depth |-> 0,shape |-> "subscript_chain",status |-> "run"]),
    ([chain |-> 323,depth |-> 0,shape |-> "subscript_chain",status |-> "run"]),
    ([chain |-> 324,depth |-> 0,shape |-> "subscript_chain",status |-> "run"]),
    ([chain |-> 325,depth |-> 0,shape |-> "subscript_chain",status |-> "run"]),
    ([chain |-> 326,depth |-> 0,shape |-> "subscript_chain",status |-> "run"]),
    ([chain |-> 327,depth |-> 0,shape |-> "subscript_chain",status |-> "run"]),
    ([chain |-> 328,depth |-> 0,shape |-> "subscript_chain",status |-> "run"]),
    ([chain |-> 329,depth |-> 0,shape |-> "subscript_chain",status |-> "run"]),
    ([chain |-> 330,depth |-> 0,shape |-> "subscript_chain",status |-> "run"]),
    ([chain |-> 331,depth |-> 0,shape |-> "subscript_chain",status |-> "run"]),
    ([chain |-> 332,depth |-> 0,shape |-> "subscript_chain",status |-> "run"]),
    ([chain |-> 333,depth |-> 0,shape |-> "subscript_chain",status |-> "run"]),
    ([chain |-> 334,depth |-> 0,shape |-> "subscript_chain",status |-> "run"]),
    ([chain |-> 335,depth |-> 0,shape |-> "subscript_chain",status |-> "run"]),
    ([chain |-> 336,depth |-> 0,shape |-> "subscript_chain",status |-> "run"]),
    ([chain |-> 337,depth |-> 0,shape |-> "subscript_chain",status |-> "run"]),
    ([chain |-> 338,depth |-> 0,shape |-> "subscript_chain",status |-> "run"]),
    ([chain |-> 339,depth |-> 0,shape |-> "subscript_chain",status |-> "run"]),
    ([chain |-> 340,depth |-> 0,shape |-> "subscript_chain",status |-> "run"]),
    ([chain |-> 341,depth |-> 0,shape |-> "subscript_chain",status |-> "run"]),
    ([chain |-> 342,depth |-> 0,shape |-> "subscript_chain",status |-> "run"]),
    ([chain |-> 343,depth |-> 0,shape |-> "subscript_chain",status |-> "run"]),
    ([chain |-> 344,depth |-> 0,shape |-> "subscript_chain",status |-> "run"]),
    ([chain |-> 345,depth |-> 0,shape |-> "subscript_chain",status |-> "run"]),
    ([chain |-> 346,depth |-> 0,shape |-> "subscript_chain",status |-> "run"]),
    ([chain |-> 347,depth |-> 0,shape |-> "subscript_chain",status |-> "run"]),
    ([chain |-> 348,depth |-> 0,shape |-> "subscript_chain",status |-> "run"]),
    ([chain |-> 349,depth |-> 0,shape |-> "subscript_chain",status |-> "run"]),
    ([chain |-> 350,depth |-> 0,shape |-> "subscript_chain",status |-> "run"]),
    ([chain |-> 351,depth |-> 0,shape |-> "subscript_chain",status |-> "run"]),
    ([chain |-> 352,depth |-> 0,shape |-> "subscript_chain",status |-> "run"]),
    ([chain |-> 353,depth |-> 0,shape |-> "subscript_chain",status |-> "run"]),
    ([chain |-> 354,depth |-> 0,shape |-> "subscript_chain",status |-> "run"]),
    ([chain |-> 355,depth |-> 0,shape |-> "subscript_chain",status |-> "run"]),
    ([chain |-> 356,depth |-> 0,shape |-> "subscript_chain",status |-> "run"]),
    ([chain |-> 357,depth |-> 0,shape |-> "subscript_chain",status |-> "run"]),
    ([chain |-> 358,depth |-> 0,shape |-> "subscript_chain",status |-> "run"]),
    ([chain |-> 359,depth |-> 0,shape |-> "subscript_chain",status |-> "run"]),
    ([chain |-> 360,depth |-> 0,shape |-> "subscript_chain",status |-> "run"]),
    ([chain |-> 361,depth |-> 0,shape |-> "subscript_chain",status |-> "run"]),
    ([chain |-> 362,depth |-> 0,shape |-> "subscript_chain",status |-> "run"]),
    ([chain |-> 363,depth |-> 0,shape |-> "subscript_chain",status |-> "run"]),
    ([chain |-> 364,depth |-> 0,shape |-> "subscript_chain",status |-> "run"]),
    ([chain |-> 365,depth |-> 0,shape |-> "subscript_chain",status |-> "run"]),
    ([chain |-> 366,depth |-> 0,shape |-> "subscript_chain",status |-> "run"]),
    ([chain |-> 367,depth |-> 0,shape |-> "subscript_chain",status |-> "run"]),
    ([chain |-> 368,depth |-> 0,shape |-> "subscript_chain",status |-> "run"]),
    ([chain |-> 369,depth |-> 0,shape |-> "subscript_chain",status |-> "run"]),
    ([chain |-> 370,depth |-> 0,shape |-> "subscript_chain",status |-> "run"]),
    ([chain |-> 371,depth |-> 0,shape |-> "subscript_chain",status |-> "run"]),
    ([chain |-> 372,depth |-> 0,shape |-> "subscript_chain",status |-> "run"]),
    ([chain |-> 373,depth |-> 0,shape |-> "subscript_chain",status |-> "run"]),
    ([chain |-> 374,depth |-> 0,shape |-> "subscript_chain",status |-> "run"]),
    ([chain |-> 375,depth |-> 0,shape |-> "subscript_chain",status |-> "run"]),
    ([chain |-> 376,depth |-> 0,shape |-> "subscript_chain",status |-> "run"]),
    ([chain |-> 377,depth |-> 0,shape |-> "subscript_chain",status |-> "run"]),
    ([chain |-> 378,depth |-> 0,shape |-> "subscript_chain",status |-> "run"]),
    ([chain |-> 379,depth |-> 0,shape |-> "subscript_chain",status |-> "run"]),
    ([chain |-> 380,depth |-> 0,shape |-> "subscript_chain",status |-> "run"]),
    ([chain |-> 381,depth |-> 0,shape |-> "subscript_chain",status |-> "run"]),
    ([chain |-> 382,depth |-> 0,shape |-> "subscript_chain",status |-> "run"]),
    ([chain |-> 383,depth |-> 0,shape |-> "subscript_chain",status |-> "run"]),
    ([chain |-> 384,depth |-> 0,shape |-> "subscript_chain",status |-> "run"]),
    ([chain |-> 385,depth |-> 0,shape |-> "subscript_chain",status |-> "run"]),
    ([chain |-> 386,depth |-> 0,shape |-> "subscript_chain",status |-> "run"]),
    ([chain |-> 387,depth |-> 0,shape |-> "subscript_chain",status |-> "run"]),
    ([chain |-> 388,depth |-> 0,shape |-> "subscript_chain",status |-> "run"]),
    ([chain |-> 389,depth |-> 0,shape |-> "subscript_chain",status |-> "run"]),
    ([chain |-> 390,depth |-> 0,shape |-> "subscript_chain",status |-> "run"]),
    ([chain |-> 391,depth |-> 0,shape |-> "subscript_chain",status |-> "run"]),
    ([chain |-> 392,depth |-> 0,shape |-> "subscript_chain",status |-> "run"]),
    ([chain |-> 393,depth |-> 0,shape |-> "subscript_chain",status |-> "run"]),
    ([chain |-> 394,depth |-> 0,shape |-> "subscript_chain",status |-> "run"]),
    ([chain |-> 395,depth |-> 0,shape |-> "subscript_chain",status |-> "run"]),
    ([chain |-> 396,depth |-> 0,shape |-> "subscript_chain",status |-> "run"]),
    ([chain |-> 397,depth |-> 0,shape |-> "subscript_chain",status |-> "run"]),
    ([chain |-> 398,depth |-> 0,shape |-> "subscript_chain",status |-> "run"]),
    ([chain |-> 399,depth |-> 0,shape |-> "subscript_chain",status |-> "run"]),
    ([chain |-> 400,depth |-> 0,shape |-> "subscript_chain",status |-> "run"]),
    ([chain |-> 401,depth |-> 0,shape |-> "subscript_chain",status |-> "run"])
    >>
----


=============================================================================

---- CONFIG MC_ParserDepth_TTrace_1790389111 ----
CONSTANTS
    Limit = 40
    B = 400
    MaxN = 401
    ChainsCounted = FALSE

INVARIANT
    _inv

CHECK_DEADLOCK
    \* CHECK_DEADLOCK off because of PROPERTY or INVARIANT above.
    FALSE

INIT
    _init

NEXT
    _next

CONSTANT
    _TETrace <- _trace

ALIAS
    _expression
=============================================================================
\* Generated on Sat Sep 26 02:18:32 UTC 2026