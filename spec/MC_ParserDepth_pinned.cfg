CONSTANTS Limit = 40
  B = 400
  MaxN = 401
  ChainsCounted = FALSE
INIT Init
NEXT Next
INVARIANT DepthBounded
INVARIANT EmitPredictions
CHECK_DEADLOCK FALSE
