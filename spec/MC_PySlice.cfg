CONSTANTS MaxLen = 4
  MaxBound = 6
  LongLens = {12, 24}
INIT Init
NEXT Next
INVARIANT LawInRange
INVARIANT LawMonotone
INVARIANT LawUnit
INVARIANT LawIndexIsSlice
INVARIANT Emit
CHECK_DEADLOCK FALSE
