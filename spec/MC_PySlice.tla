----------------------------- MODULE MC_PySlice -----------------------------
EXTENDS PySlice, Json
CONSTANTS MaxLen, MaxBound, LongLens
Bounds == (-MaxBound..MaxBound) \cup {ABS, HP, HN}
Steps == {ABS, HP, HN, 0, 1, -1, 2, -2, 3, -3}
\* containers long enough to live in another representation (a string of more than 23 bytes is on the heap; one of 12 multi-byte
\* characters has 12 characters and about 36 bytes): bounds at and around both ends, counted from either end
EdgeBounds(n) == {ABS, HP, HN, 0, 1, 2, n - 1, n, n + 1, -1, -2, 1 - n, -n, -n - 1}
LongSteps == {ABS, 1, -1, 2, -3}
VARIABLES v
Init == \/ v \in [op : {"slice"}, len : 0..MaxLen, a : Bounds, b : Bounds, c : Steps]
        \/ \E n \in LongLens : v \in [op : {"slice"}, len : {n}, a : EdgeBounds(n), b : EdgeBounds(n), c : LongSteps]
        \/ \E n \in LongLens : v \in [op : {"index"}, len : {n}, a : EdgeBounds(n) \ {ABS}, b : {0}, c : {0}]
        \/ \E n \in LongLens : v \in [op : {"strops"}, len : {n}, a : {0, 1, n - 1, n, n + 1}, b : {0}, c : {0}]
        \/ v \in [op : {"index"}, len : 0..MaxLen, a : Bounds \ {ABS}, b : {0}, c : {0}]
        \/ v \in [op : {"strops"}, len : 0..MaxLen, a : 0..(MaxLen + 1), b : {0}, c : {0}]
Next == UNCHANGED v
Result == CASE v.op = "slice" -> Slice(v.len, v.a, v.b, v.c)
            [] v.op = "index" -> Index(v.len, v.a)
            [] v.op = "strops" -> [rev |-> Reverse(v.len), each |-> Each(v.len), trunc |-> Truncate(v.len, v.a)]
LawInRange == v.op = "slice" => InRange(v.len, Slice(v.len, v.a, v.b, v.c).s)
LawMonotone == v.op = "slice" => Monotone(Slice(v.len, v.a, v.b, v.c).s, v.c)
LawUnit == v.op = "slice" /\ v.c = 1 => UnitRun(v.len, v.a, v.b)
LawIndexIsSlice == v.op = "index" /\ Index(v.len, v.a).def /\ v.a # -1
                     => Slice(v.len, v.a, v.a + 1, 1).s = <<Index(v.len, v.a).i>>
Emit == PrintT(<<"VEC", ToJson([v |-> v, r |-> Result])>>)
=============================================================================
