CONSTANT Limit = 20
CONSTANT CarryAcrossInclude = TRUE
INIT Init
NEXT Next
INVARIANT InvBounded
INVARIANT InvOutcome
INVARIANT Emit
CHECK_DEADLOCK FALSE
