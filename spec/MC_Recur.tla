------------------------------ MODULE MC_Recur ------------------------------
(***************************************************************************)
(* C11, second half: "every accepted set can be rendered without unbounded *)
(* recursion".  Include cycles are refused at registration, but recursion  *)
(* can also pass through COMPONENT calls, which registration does not      *)
(* restrict: a component may call itself, or include a template that calls *)
(* it again.  The only run-time backstop is the component depth counter    *)
(* (interpreter.rs: render_component refuses depth > Limit; render_include *)
(* hands the counter on to the nested machine).                            *)
(*                                                                         *)
(* Universe: templates A, B; component c defined in A, d defined in B;     *)
(* each of the four bodies contains one operation: nothing, an include of  *)
(* a template, or a call of a component.  The machine below is the call    *)
(* stack of the interpreter.  TLC shows that on every accepted graph the   *)
(* stack stays bounded (InvBounded) -- and that this is BECAUSE the counter*)
(* is carried across includes (MC_Recur_reset.cfg: counter reset on        *)
(* include, as a nested `VirtualMachine::new` would do: TLC finds the      *)
(* unbounded stack).                                                       *)
(***************************************************************************)
EXTENDS Integers, Sequences, FiniteSets, TLC, Json
CONSTANTS Limit, CarryAcrossInclude
Tpls == {"A", "B"}
Comps == {"c", "d"}
Home == [c |-> "A", d |-> "B"]
Nodes == Tpls \cup Comps
Ops == {"none"} \cup Nodes

VARIABLES g, entry, stack, cd, res
vars == <<g, entry, stack, cd, res>>

\* include edges of a template: its own include and the includes inside the components it defines
IncEdges(x) == ({g[x]} \cup {g[k] : k \in {k \in Comps : Home[k] = x}}) \cap Tpls
RECURSIVE Reach(_, _)
Reach(S, k) == IF k = 0 THEN S ELSE Reach(S \cup UNION {IncEdges(x) : x \in S}, k - 1)
Accepted == \A x \in Tpls : x \notin Reach(IncEdges(x), Cardinality(Tpls))

Init == /\ g \in [Nodes -> Ops] /\ entry \in Tpls
        /\ stack = <<>> /\ cd = 0 /\ res = "new"
Register == /\ res = "new"
            /\ IF Accepted THEN stack' = <<entry>> /\ res' = "run" ELSE res' = "refused" /\ UNCHANGED stack
            /\ UNCHANGED <<g, entry, cd>>
Top == stack[Len(stack)]
Finish == res = "run" /\ g[Top] = "none" /\ res' = "text" /\ UNCHANGED <<g, entry, stack, cd>>
Include == /\ res = "run" /\ g[Top] \in Tpls
           /\ stack' = Append(stack, g[Top])
           /\ cd' = IF CarryAcrossInclude THEN cd ELSE 0
           /\ UNCHANGED <<g, entry, res>>
Call == /\ res = "run" /\ g[Top] \in Comps
        /\ IF cd + 1 > Limit THEN res' = "err" /\ UNCHANGED <<stack, cd>>
                             ELSE stack' = Append(stack, g[Top]) /\ cd' = cd + 1 /\ res' = res
        /\ UNCHANGED <<g, entry>>
Next == Register \/ Finish \/ Include \/ Call

\* between two component frames there can be at most |Tpls| include frames (the include relation is acyclic)
InvBounded == Len(stack) <= (Limit + 1) * (Cardinality(Tpls) + 1)
\* the render ends in an error iff a call cycle is reachable from the entry
CallEdges(x) == IF g[x] = "none" THEN {} ELSE {g[x]}
RECURSIVE CReach(_, _)
CReach(S, k) == IF k = 0 THEN S ELSE CReach(S \cup UNION {CallEdges(x) : x \in S}, k - 1)
CycleFrom(x) == \E y \in CReach({x}, 4) : y \in CReach(CallEdges(y), 4)
InvOutcome == /\ res = "text" => ~CycleFrom(entry)
              /\ res = "err" => CycleFrom(entry)
RECURSIVE Open(_, _), Shut(_, _)
Open(s, i) == IF i > Len(s) THEN "" ELSE (IF s[i] \in Tpls THEN s[i] \o "(" ELSE "[" \o s[i]) \o Open(s, i + 1)
Shut(s, i) == IF i = 0 THEN "" ELSE (IF s[i] \in Tpls THEN ")" ELSE "]") \o Shut(s, i - 1)
Emit == res \in {"text", "err", "refused"} =>
          PrintT(<<"VEC", ToJson([g |-> g, entry |-> entry, res |-> res, text |-> IF res = "text" THEN Open(stack, 1) \o Shut(stack, Len(stack)) ELSE ""])>>)
=============================================================================
