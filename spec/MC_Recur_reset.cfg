CONSTANT Limit = 20
CONSTANT CarryAcrossInclude = FALSE
INIT Init
NEXT Next
INVARIANT InvBounded
CHECK_DEADLOCK FALSE
