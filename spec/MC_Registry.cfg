CONSTANTS Names = {"A", "B", "C.h"}
  Prefixes <- PrefixesDef
  Universe = "small"
INIT Init
NEXT Next
VIEW View
INVARIANT InvAccepted
INVARIANT InvLineage
ACTION_CONSTRAINT AC
CHECK_DEADLOCK FALSE
