----------------------------- MODULE MC_Registry -----------------------------
(***************************************************************************)
(* C10: histories of add / replace calls (single and batched, valid and    *)
(* invalid in every way) interleaved with autoescape reconfiguration.      *)
(* TLC explores the registry state machine; every explored transition      *)
(* (pre, action, post) is emitted through the ACTION_CONSTRAINT with what   *)
(* the specification predicts for the post state (acceptance, failure      *)
(* classes, parents, lineages, component owner, autoescape flags, the text  *)
(* of every template and block), and is replayed from two histories.       *)
(***************************************************************************)
EXTENDS Registry, Json
CONSTANTS Names, Universe       \* Universe: "small" | "full"
PrefixesDef == <<"p/">>
\* Universe "chain": four names, single adds of roots and children only -- inheritance chains of depth 4 whose top or
\* middle is re-registered with another parent (what three names cannot express)
IsChain == Universe = "chain"
Bare == IF IsChain THEN {"A", "B", "D"} ELSE {"A", "B"}
D(ext, a, z, unk, inc, comp, usec) == [Leaf EXCEPT !.ext = ext, !.a = a, !.z = z, !.unk = unk, !.inc = inc,
                                                    !.incpos = IF inc = "" THEN "" ELSE "body", !.comp = comp, !.usec = usec]
Descs ==
  IF IsChain THEN {D("", "def", FALSE, FALSE, "", FALSE, FALSE)} \cup {D(p, "super", FALSE, FALSE, "", FALSE, FALSE) : p \in Bare}
                \cup {D(p, "none", FALSE, FALSE, "", FALSE, FALSE) : p \in Bare}
  ELSE
  {D("", "def", FALSE, FALSE, "", FALSE, FALSE),                 \* a root with block a
   [Leaf EXCEPT !.syn = FALSE],                                  \* syntax error
   D("", "none", FALSE, TRUE, "", FALSE, FALSE)}                 \* unknown filter
  \cup {D(p, "super", FALSE, FALSE, "", FALSE, FALSE) : p \in Bare}        \* child overriding a, calling super()
  \cup {D(p, "none", FALSE, FALSE, "", FALSE, FALSE) : p \in Bare}         \* child without blocks
  \cup {D("", "none", FALSE, FALSE, p, FALSE, FALSE) : p \in Bare}         \* includer
  \cup {D(p, "none", TRUE, FALSE, "", FALSE, FALSE) : p \in Bare}          \* child with an orphan block
  \cup {D("", "def", FALSE, FALSE, "", TRUE, FALSE),                      \* component provider
        D("", "none", FALSE, FALSE, "", FALSE, TRUE)}                     \* component user
  \cup (IF Universe = "full"
        THEN {D("A", "def", FALSE, FALSE, "", FALSE, FALSE),               \* child overriding a without super
              D("", "def", TRUE, FALSE, "", FALSE, FALSE),                 \* root with blocks a and z
              D("", "none", FALSE, FALSE, "A", TRUE, FALSE)}               \* component provider whose body includes A
        ELSE {})
SecondDescs == {d \in Descs : d.ext = "" /\ d.inc = "" /\ ~d.z} \cup {D("A", "super", FALSE, FALSE, "", FALSE, FALSE)}
\* the root with block a again, with other literal text of the same length (only as a single add of A)
RootV2 == [D("", "def", FALSE, FALSE, "", FALSE, FALSE) EXCEPT !.v2 = TRUE]
\* the component provider again, with another BODY of the component under the same signature (as a single add of any name)
ProviderV2 == [D("", "def", FALSE, FALSE, "", TRUE, FALSE) EXCEPT !.v2 = TRUE]
Batches == IF IsChain THEN {<<<<n, d>>>> : n \in Names, d \in Descs} ELSE
           {<<<<n, d>>>> : n \in Names, d \in Descs} \cup {<<<<"A", RootV2>>>>} \cup {<<<<n, ProviderV2>>>> : n \in Names}
           \cup {<<<<n, d>>, <<m, e>>>> : n \in Names, d \in Descs, m \in Names, e \in SecondDescs}
SuffixSets == IF IsChain THEN {{".h"}} ELSE {{}, {".h"}}
EndsWithH(n) == n = "C.h"

VARIABLES tpls, sfx, last
vars == <<tpls, sfx, last>>
Init == tpls = [n \in Names |-> Absent] /\ sfx = {".h"} /\ last = [kind |-> "init"]
RECURSIVE Ap(_, _, _)
Ap(X, batch, i) == IF i > Len(batch) THEN X ELSE Ap([X EXCEPT ![batch[i][1]] = batch[i][2]], batch, i + 1)
Cand(T, batch) == Ap(T, batch, 1)           \* later entries of a batch win
SyntaxBad(batch) == \E i \in 1..Len(batch) : ~batch[i][2].syn
\* either the resulting set is installed, or NOTHING changes
AddBatch == \E b \in Batches :
  LET cand == Cand(tpls, b)
      fails == IF SyntaxBad(b) THEN {"SyntaxError"} ELSE Fails(cand) IN
  /\ tpls' = IF fails = {} THEN cand ELSE tpls
  /\ last' = [kind |-> "add", batch |-> b, ok |-> fails = {}, fails |-> fails]
  /\ UNCHANGED sfx
SetAutoescape == \E s \in SuffixSets : sfx' = s /\ last' = [kind |-> "ae", s |-> s] /\ UNCHANGED tpls
Next == AddBatch \/ SetAutoescape

InvAccepted == Accept(tpls)
InvLineage == \A n \in Present(tpls), blk \in Blocks : AlgoLineage(tpls, n, blk) = Lineage(tpls, n, blk)
Proj(T, S) == [n \in Names |->
  IF ~T[n].here THEN [here |-> FALSE]
  ELSE [here |-> TRUE, parents |-> Parents(T, n), ae |-> (EndsWithH(n) /\ ".h" \in S),
        lin |-> [blk \in Blocks |-> Lineage(T, n, blk)], text |-> Render(T, n),
        blocks |-> [blk \in Blocks |-> RenderBlock(T, n, blk)]]]
\* emitted once per explored transition (primed variables available)
AC == PrintT(<<"EDGE", ToJson([pre |-> tpls, presfx |-> sfx, act |-> last', post |-> Proj(tpls', sfx'), owner |-> CompOwner(tpls')])>>)
View == <<tpls, sfx>>
=============================================================================
