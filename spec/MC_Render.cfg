CONSTANTS MaxTok = 3
  Theme = "flow"
INIT Init
NEXT Next
INVARIANT InvWellEnded
INVARIANT Emit
INVARIANT EmitEnv
INVARIANT InvNoRawSpecials
CHECK_DEADLOCK FALSE
