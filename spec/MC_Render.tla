------------------------------ MODULE MC_Render ------------------------------
(***************************************************************************)
(* Generator: a state machine whose actions append one token and keep the  *)
(* stack of open constructs, under the well-formedness rules the parser    *)
(* enforces (break/continue only directly inside a loop body and not       *)
(* across a capture, else/elif only where allowed).  Every complete        *)
(* program of at most MaxTok tokens is reached exactly once; for each one  *)
(* the reference result under every environment is emitted.                *)
(***************************************************************************)
EXTENDS Render, Json
CONSTANTS MaxTok, Theme

Ch(a) == <<a>>
X == EVar("x")
Y == EVar("y")
Dv == EVar("d")
Iv == EVar("i")
NoE == ENone
Texts == [t1 |-> <<"T">>, t2 |-> <<"<", "b", ">">>, I |-> <<"I">>, J |-> <<"J">>]

\* ---------------- included templates (fixed library)
\* inc reads x (which may come from any includer up the chain) and w (which only inc2, the intermediate includer, assigns)
IncScope == << T("text", "I", NoE, ""), T("if", "", X, ""), T("print", "", X, ""), T("end", "", NoE, ""),
               T("if", "", EVar("w"), ""), T("print", "", EVar("w"), ""), T("end", "", NoE, ""),
               T("set", "x", ELit(<<"i">>), ""), T("setg", "y", ELit(<<"j">>), ""), T("print", "", X, "") >>
IncData == << T("text", "J", NoE, ""), T("print", "", Dv, ""), T("if", "", Iv, ""), T("print", "", Iv, ""), T("end", "", NoE, "") >>
\* a template that includes another one: the innermost sees the scopes of the whole chain of includers
IncNested == << T("text", "J", NoE, ""), T("set", "w", ELit(<<"m">>), ""), T("include", "inc", NoE, ""),
                T("if", "", Y, ""), T("print", "", Y, ""), T("end", "", NoE, "") >>
\* a PURE PASS-THROUGH includer: no loop and no assignment of its own at its include -- the innermost template must still see the
\* scopes of the templates above it (a lookup that stops at an includer "with nothing to say" loses them)
IncPass == << T("text", "J", NoE, ""), T("include", "inc", NoE, "") >>
Lib == [inc |-> IncScope, incd |-> IncData, inc2 |-> IncNested, inc3 |-> IncPass]

\* ---------------- alphabets per theme
Leafs ==
  CASE Theme = "flow" -> {T("text", "t1", NoE, ""), T("print", "", X, ""), T("print", "", Iv, ""), T("print", "", ELoop("index"), ""),
                          T("print", "", ELoop("last"), ""), T("set", "x", ENum(1), ""), T("setg", "y", ENum(2), "")}
    [] Theme = "scope" -> {T("text", "t1", NoE, ""), T("print", "", X, ""), T("print", "", Y, ""), T("set", "x", ELit(<<"s">>), ""),
                           T("set", "y", X, ""), T("setg", "x", ELit(<<"g">>), ""), T("include", "inc", NoE, ""), T("include", "inc2", NoE, ""), T("include", "inc3", NoE, "")}
    [] Theme = "capture" -> {T("text", "t2", NoE, ""), T("print", "", X, ""), T("print", "", Dv, ""), T("print", "", Iv, ""),
                             T("include", "incd", NoE, ""), T("set", "x", Dv, "")}
    \* "nest": captures inside captures (to depth 3) around includes and prints -- few tokens, so 6 of them are affordable
    [] Theme = "nest" -> {T("text", "t2", NoE, ""), T("print", "", Dv, ""), T("print", "", X, ""), T("include", "incd", NoE, "")}
    [] Theme = "global" -> {T("text", "t1", NoE, ""), T("print", "", X, ""), T("print", "", Iv, ""), T("setg", "x", Iv, ""), T("set", "x", Iv, ""),
                            T("print", "", ELoop("index"), "")}
    \* "gcap": assignments (set / set_global) INSIDE captures INSIDE loops and the other way round, read back after each
    \* construct ends -- three leaves, so 6 (7) tokens are affordable: for, capture, assignment, end, end, print
    [] Theme = "gcap" -> {T("print", "", X, ""), T("setg", "x", Iv, ""), T("set", "x", Iv, "")}
    [] Theme = "escape" -> {T("text", "t2", NoE, ""), T("print", "", Dv, ""), T("print", "", ELit(<<"'", "<">>), ""),
                            T("print", "", ECat(Dv, ELit(<<"&">>)), ""), T("print", "", EFilt("upper", Dv), ""),
                            T("print", "", EFilt("safe", Dv), ""), T("print", "", EFilt("upper", EFilt("safe", Dv)), ""),
                            T("print", "", ECat(EFilt("safe", Dv), ELit(<<>>)), ""),
                            T("print", "", EFilt("wrap", Dv), ""), T("print", "", EFilt("wrap_safe", Dv), ""),
                            T("print", "", EIdx(Dv, 0), ""), T("print", "", EIdx(EFilt("safe", Dv), 0), ""),
                            T("print", "", X, ""), T("print", "", EFilt("upper", X), ""), T("print", "", EAttr(EVar("m"), "a"), ""),
                            T("print", "", ENum(7), ""), T("include", "incd", NoE, ""), T("set", "x", Dv, ""),
                            T("set", "x", EFilt("safe", Dv), "")}
IfConds == CASE Theme = "flow" -> {X, Iv, ELoop("first")} [] Theme = "scope" -> {X, Y} [] Theme \in {"nest", "gcap"} -> {} [] OTHER -> {X}
ForHeads ==
  CASE Theme = "flow" -> {T("for", "i", EVar("xs"), ""), T("for", "i", EVar("es"), ""), T("for", "i", EVar("s"), ""), T("for", "x", EVar("xs"), ""), T("for", "i", EVar("u"), "")}
    [] Theme = "scope" -> {T("for", "x", EVar("xs"), ""), T("for", "i", EVar("xs"), "")}
    [] Theme = "capture" -> {T("for", "i", EVar("xs"), "")}
    [] Theme \in {"global", "gcap"} -> {T("for", "i", EVar("xs"), "")}
    [] Theme = "nest" -> {}
    [] Theme = "escape" -> {T("for", "i", Dv, ""), T("forkv", "i", EVar("m"), "x")}
CapHeads ==
  CASE Theme = "capture" -> {T("setblock", "x", NoE, ""), T("setblock", "x", NoE, "upper"), T("setgblock", "x", NoE, ""), T("filter", "upper", NoE, ""), T("filter", "safe", NoE, "")}
    [] Theme = "escape" -> {T("setblock", "x", NoE, ""), T("setblock", "x", NoE, "upper"), T("filter", "upper", NoE, ""), T("filter", "wrap_safe", NoE, "")}
    [] Theme = "global" -> {T("setgblock", "x", NoE, ""), T("setblock", "x", NoE, ""), T("setgblock", "x", NoE, "upper")}
    [] Theme = "nest" -> {T("setblock", "x", NoE, ""), T("filter", "upper", NoE, "")}
    [] Theme = "gcap" -> {T("setblock", "y", NoE, ""), T("filter", "upper", NoE, ""), T("setgblock", "y", NoE, "")}
    [] OTHER -> {}
HasElif == Theme = "flow"
HasBrk == Theme \in {"flow", "capture"}

\* ---------------- environments
DStr == StrV(<<"<", "a", "&">>, FALSE)
\* u: a string of a 2-byte, a 3-byte and a 4-byte character (the harness maps ` ^ | to é 世 and an emoji)
Base == [d |-> DStr, xs |-> ArrV(<<IntV(1), IntV(2)>>), es |-> ArrV(<<>>), s |-> StrV(<<"p", "q">>, FALSE), u |-> StrV(<<"`", "^", "|">>, FALSE),
         m |-> MapV(<<"a">>, <<StrV(<<"\"">>, FALSE)>>)]
Env(ctx, gctx, ae) == [ctx |-> ctx, gctx |-> gctx, ae |-> ae, esc |-> "html", lib |-> Lib, texts |-> Texts]
Envs ==
  CASE Theme \in {"flow", "capture", "global", "nest", "gcap"} -> << Env(Base, EmptyF, FALSE), Env(("x" :> IntV(0)) @@ Base, ("y" :> IntV(5)), FALSE) >>
    [] Theme = "scope" -> << Env(Base, EmptyF, FALSE),
                             Env(("x" :> StrV(<<"c">>, FALSE)) @@ Base, ("x" :> StrV(<<"G">>, FALSE)) @@ ("y" :> StrV(<<"H">>, FALSE)), FALSE),
                             Env(Base, ("x" :> StrV(<<"G">>, FALSE)), FALSE),
                             Env(("y" :> StrV(<<"k">>, FALSE)) @@ Base, EmptyF, FALSE) >>
    \* (third environment: x bound, and d a string of 26 characters -- strings of 22 bytes and more are stored differently)
    [] Theme = "escape" -> << Env(Base, EmptyF, TRUE), Env(Base, EmptyF, FALSE),
                              Env(("x" :> StrV(<<">">>, FALSE)) @@ ("d" :> StrV(<<"<", "a", "&", "l", "o", "n", "g", "e", "r", "-", "t", "h", "a", "n", "-", "2", "2", "-", "b", "y", "t", "e", "s", "'", "\"", ">">>, FALSE)) @@ Base, EmptyF, TRUE),
                              [Env(Base, EmptyF, TRUE) EXCEPT !.esc = "brackets"] >>

VARIABLES prog, open, done
vars == <<prog, open, done>>
Init == prog = <<>> /\ open = <<>> /\ done = FALSE
Room == Len(prog) + Len(open) < MaxTok            \* leave room to close everything
RoomOpen == Len(prog) + Len(open) + 2 <= MaxTok
\* break/continue: directly inside the body of a loop, not through a capture, not in the loop's else part
RECURSIVE InLoopNoCap(_, _)
InLoopNoCap(o, i) == IF i = 0 THEN FALSE ELSE IF o[i] = "for" THEN TRUE ELSE IF o[i] \in {"cap", "forelse"} THEN FALSE ELSE InLoopNoCap(o, i - 1)
AddLeaf == ~done /\ Room /\ \E t \in Leafs : prog' = Append(prog, t) /\ UNCHANGED <<open, done>>
AddBrk == /\ ~done /\ Room /\ HasBrk /\ InLoopNoCap(open, Len(open))
          /\ \E k \in {"break", "continue"} : prog' = Append(prog, T(k, "", NoE, ""))
          /\ UNCHANGED <<open, done>>
OpenIf == ~done /\ RoomOpen /\ \E c \in IfConds : prog' = Append(prog, T("if", "", c, "")) /\ open' = Append(open, "if") /\ UNCHANGED done
OpenFor == ~done /\ RoomOpen /\ \E h \in ForHeads : prog' = Append(prog, h) /\ open' = Append(open, "for") /\ UNCHANGED done
OpenCap == ~done /\ RoomOpen /\ \E h \in CapHeads : prog' = Append(prog, h) /\ open' = Append(open, "cap") /\ UNCHANGED done
Else == /\ ~done /\ open # <<>> /\ open[Len(open)] \in {"if", "for"} /\ Room
        /\ prog' = Append(prog, T("else", "", NoE, ""))
        /\ open' = [open EXCEPT ![Len(open)] = IF @ = "if" THEN "ifelse" ELSE "forelse"]
        /\ UNCHANGED done
Elif == /\ ~done /\ HasElif /\ open # <<>> /\ open[Len(open)] = "if" /\ Room
        /\ \E c \in IfConds : prog' = Append(prog, T("elif", "", c, ""))
        /\ UNCHANGED <<open, done>>
Close == ~done /\ open # <<>> /\ prog' = Append(prog, T("end", "", NoE, "")) /\ open' = SubSeq(open, 1, Len(open) - 1) /\ UNCHANGED done
Finish == ~done /\ open = <<>> /\ prog # <<>> /\ done' = TRUE /\ UNCHANGED <<prog, open>>
Next == AddLeaf \/ AddBrk \/ OpenIf \/ OpenFor \/ OpenCap \/ Else \/ Elif \/ Close \/ Finish

RECURSIVE Join(_)
Join(s) == IF s = <<>> THEN "" ELSE Head(s) \o Join(Tail(s))
\* (outputs beyond 3000 characters -- nested loops over the 26-character string, reached only in simulation -- are not joined
\* into one string: the program is then "unspec" for that environment and only has to render without a panic)
Res(e) == LET r == Run(prog, e) IN IF Len(r.out) > 3000 THEN [r |-> "unspec", out |-> ""] ELSE [r |-> r.r, out |-> Join(r.out)]
InvWellEnded == done => \A k \in 1..Len(Envs) : WellEnded(prog, Envs[k])
\* with autoescaping on and no use of `safe`/safe-registered callables, no raw special character from data can be in the output:
\* checked on the specification itself for the escape theme (texts are the only source of raw specials)
\* C01 at the level of the rule set: with autoescaping on and no `safe` / safe-registered callable anywhere, no
\* special character can reach the output except from literal template text (evaluated with special-free texts)
RECURSIVE UsesSafeE(_)
UsesSafeE(x) == CASE x.e = "filt" -> x.f \in {"safe", "wrap_safe"} \/ UsesSafeE(x.a)
                  [] x.e = "cat" -> UsesSafeE(x.a) \/ UsesSafeE(x.b)
                  [] x.e \in {"attr", "idx"} -> UsesSafeE(x.a)
                  [] OTHER -> FALSE
UsesSafe(p) == \E i \in 1..Len(p) : UsesSafeE(p[i].e) \/ (p[i].k = "filter" /\ p[i].n \in {"safe", "wrap_safe"})
                                      \/ (p[i].k = "setblock" /\ p[i].m \in {"safe", "wrap_safe"})
PlainTexts == [t1 |-> <<"T">>, t2 |-> <<"T">>, I |-> <<"I">>, J |-> <<"J">>]
InvNoRawSpecials == done /\ ~UsesSafe(prog) =>
  \A k \in 1..Len(Envs) : Envs[k].ae /\ Envs[k].esc = "html" =>
     LET r == Run(prog, [Envs[k] EXCEPT !.texts = PlainTexts]) IN
     r.r = "ok" => \A i \in 1..Len(r.out) : r.out[i] \notin {"<", ">", "\"", "'"}
EmitEnv == (prog = <<>> /\ ~done) => PrintT(<<"ENV", ToJson([envs |-> [k \in 1..Len(Envs) |-> [ctx |-> Envs[k].ctx, gctx |-> Envs[k].gctx, ae |-> Envs[k].ae, esc |-> Envs[k].esc]],
                                                              lib |-> Lib, texts |-> Texts])>>)
Emit == done => PrintT(<<"VEC", ToJson([p |-> prog, r |-> [k \in 1..Len(Envs) |-> Res(Envs[k])]])>>)
=============================================================================
