------------------------------ MODULE MC_Routes ------------------------------
(***************************************************************************)
(* C15, provenance: "same data" does not depend on HOW a value came to be. *)
(* A route is a way of obtaining a value inside a template: a literal, a   *)
(* context variable in some machine encoding, the key or the value a for   *)
(* loop hands out, an element of `keys`, the result of a filter that does  *)
(* not change the data, a capture, a concatenation with nothing, a loop    *)
(* counter, a length, ...  The harness obtains every value of a group by   *)
(* every route in ONE render and records, for every pair of routes,        *)
(*    teq  a == b        tne  a != b        tin  a in [b]                  *)
(*    tae  [a] == [b]    tun  [a, b] | unique | length                     *)
(*    tlt  a < b   (numbers only; 2 = the comparison was refused)          *)
(* cls[r] is the datum route r yields; val2[r] twice its numeric value     *)
(* (numbers only).  The laws are those of Laws.tla read over routes.       *)
(***************************************************************************)
EXTENDS Laws, Json, IOUtils
O == JsonDeserialize(IOEnv.OBS)
N == Len(O.cls)
VARIABLES i, j
Init == i \in 1..N /\ j \in 1..N
Next == UNCHANGED <<i, j>>
Same == O.cls[i] = O.cls[j]
InvRouteEq == O.teq[i][j] = (IF Same THEN 1 ELSE 0)
InvRouteNe == O.tne[i][j] = (IF Same THEN 0 ELSE 1)
InvRouteIn == O.tin[i][j] = (IF Same THEN 1 ELSE 0)
InvRouteArrayEq == O.tae[i][j] = (IF Same THEN 1 ELSE 0)
InvRouteUnique == O.tun[i][j] = (IF Same THEN 1 ELSE 2)
InvRouteOrder == O.numeric => O.tlt[i][j] = (IF O.val2[i] < O.val2[j] THEN 1 ELSE 0)
InvRouteSymmetric == O.teq[i][j] = O.teq[j][i]
=============================================================================
