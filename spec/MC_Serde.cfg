CONSTANT Depth = 2
INIT Init
NEXT Next
INVARIANT InvRefusedMonotone
INVARIANT Emit
CHECK_DEADLOCK FALSE
