------------------------------- MODULE MC_Serde -------------------------------
EXTENDS Serde, Json
CONSTANT Depth
Prims0 == {P(p) : p \in {"bool", "i8", "i64", "i128", "u8", "u64", "u128", "i16", "u16", "i32", "u32", "f32", "f64", "char", "str", "unit"}}
KeyTys == {P(p) : p \in {"str", "i8", "i16", "i32", "i64", "i128", "u8", "u16", "u32", "u64", "u128", "char", "bool", "f64", "unit"}}
\* composites of exactly one more level over a set S of types
Over(S) == {Opt(a) : a \in S} \cup {SeqT(a) : a \in S} \cup {NewT(a) : a \in S} \cup {EnumT(a) : a \in S}
           \cup {MapT(k, a) : k \in KeyTys, a \in S} \cup {StructT("S", << <<"a", a>>, <<"b", P("i64")>> >>) : a \in S}
           \cup {Tup(<<a, P("str")>>) : a \in S}
Small0 == {P(p) : p \in {"u8", "i128", "str", "unit", "bool"}}
T1 == Over(Prims0)
\* second level: over a cross-section of the first (every constructor, a few payloads)
T2 == Over({x \in Over(Small0) : TRUE})
T3 == Over({Opt(EnumT(P("u8"))), SeqT(StructT("S", << <<"a", P("str")>>, <<"b", P("i64")>> >>)), NewT(EnumT(P("str"))), EnumT(NewT(P("u64"))),
            MapT(P("str"), SeqT(P("u8"))), MapT(P("i32"), EnumT(P("bool"))), Tup(<<Opt(P("u8")), P("str")>>)})
Types == Prims0 \cup T1 \cup (IF Depth >= 2 THEN T2 ELSE {}) \cup (IF Depth >= 3 THEN T3 ELSE {})
VARIABLES ty, vi, done
Init == ty \in Types /\ vi \in 1..4 /\ vi <= Len(Vals(ty)) /\ done = FALSE
Next == ~done /\ done' = TRUE /\ UNCHANGED <<ty, vi>>
v == Vals(ty)[vi]
\* the oracle is well defined: a value is refused exactly when one of its parts is
InvRefusedMonotone == done /\ ty.t = "opt" /\ v.k = "some" => (Refused(ty, v) <=> Refused(ty.a, v.v))
Emit == done => PrintT(<<"VEC", ToJson([ty |-> ty, val |-> v, refused |-> Refused(ty, v), lossy |-> Lossy(ty), print |-> Shown(ty, v)])>>)
=============================================================================
