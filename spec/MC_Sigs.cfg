INIT Init
NEXT Next
INVARIANT InvPartition
INVARIANT Emit
CHECK_DEADLOCK FALSE
