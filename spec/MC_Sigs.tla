------------------------------- MODULE MC_Sigs -------------------------------
EXTENDS Sigs, Json
VARIABLES fam, fi, recv, st, done
Table(f) == IF f = "filter" THEN Filters ELSE IF f = "test" THEN Tests ELSE Functions
Init == /\ fam \in {"filter", "test", "function", "range", "types", "parity", "parityx"}
        /\ done = FALSE
        /\ \/ /\ fam \in {"filter", "test", "function"} /\ fi \in 1..Len(Table(fam))
              /\ recv \in (IF fam = "function" THEN {"none"} ELSE RecvKinds)
              /\ st \in [1..Len(Table(fam)[fi].args) -> ArgStates]
              /\ \A i \in 1..Len(st) : st[i] = "edge" => Table(fam)[fi].args[i].k \in {"nat", "int"}
           \/ fam = "range" /\ fi \in 0..1 /\ recv = "none" /\ st \in [1..3 -> {-3, -2, -1, 0, 1, 2, 3, 7}]
           \/ fam = "types" /\ fi = 0 /\ recv \in RecvKinds /\ st = <<>>
           \/ fam = "parity" /\ fi = 0 /\ recv = "int" /\ st \in [1..2 -> -7..7] /\ st[2] # 0
           \/ fam = "parityx" /\ fi \in 1..Len(Extremes) /\ recv = "int" /\ st \in [1..1 -> {-2, -1, 1, 2}]
Next == ~done /\ done' = TRUE /\ UNCHANGED <<fam, fi, recv, st>>
InvPartition == done /\ fam = "types" => PartitionLaws(TypeTests(recv))
Emit == done =>
  CASE fam \in {"filter", "test", "function"} ->
         LET f == Table(fam)[fi] IN PrintT(<<"VEC", ToJson([fam |-> fam, name |-> f.name, args |-> f.args, recv |-> recv, st |-> st, cell |-> Cell(f, recv, st)])>>)
    [] fam = "range" -> PrintT(<<"VEC", ToJson([fam |-> fam, start |-> st[1], end |-> st[2], step |-> st[3], r |-> Range(st[1], st[2], st[3])])>>)
    [] fam = "parity" -> PrintT(<<"VEC", ToJson([fam |-> fam, n |-> st[1], d |-> st[2], odd |-> Odd(st[1]), div |-> Divisible(st[1], st[2])])>>)
    [] fam = "parityx" -> PrintT(<<"VEC", ToJson([fam |-> fam, x |-> Extremes[fi], d |-> st[1], odd |-> OddX(Extremes[fi]), div |-> DivisibleX(Extremes[fi], st[1])])>>)
    [] fam = "types" -> PrintT(<<"VEC", ToJson([fam |-> fam, recv |-> recv, t |-> TypeTests(recv)])>>)
=============================================================================
