INIT Init
NEXT Next
INVARIANT Emit
CHECK_DEADLOCK FALSE
