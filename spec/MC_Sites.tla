------------------------------- MODULE MC_Sites -------------------------------
EXTENDS Sites, TLC, Json
VARIABLES pn, cn
Init == pn \in DOMAIN ProdKind /\ cn \in DOMAIN ConsAccepts
Next == UNCHANGED <<pn, cn>>
Emit == PrintT(<<"VEC", ToJson([p |-> pn, c |-> cn, kind |-> ProdKind[pn], fails |-> Fails(pn, cn)])>>)
=============================================================================
