------------------------------- MODULE MC_Spans -------------------------------
EXTENDS Spans, Sites, Json, IOUtils
Obs == IF IOEnv.OBS = "" THEN <<>> ELSE ndJsonDeserialize(IOEnv.OBS)
\* fault plantings: kind x host x prefix
RenderFaults == {"undefined-var", "undefined-field", "math-on-string", "divide-by-zero", "filter-receiver", "filter-missing-arg", "iterate-scalar",
                 "compare", "bad-subscript", "throw", "negate-string", "slice-step-zero", "component-missing-arg", "unknown-path-in-set", "across-newline", "spread-non-map", "in-scalar",
                 "set-block-first-filter"}
SyntaxFaults == {"dangling-operator", "empty-if", "stray-endfor", "unterminated-string", "unknown-tag", "double-dot", "unclosed-expression", "unclosed-tag",
                 "missing-endif", "bad-filter-call", "assign-keyword", "unclosed-comment",
                 "unclosed-tag-nl", "unclosed-expression-nl", "missing-endif-nl", "unclosed-comment-nl"}
Hosts == {"entry", "included", "parent-block", "child-block-with-super", "parent-block-via-super", "component", "component-via-include",
          "included-in-filter-section", "included-in-set-block", "included-in-component-call-body", "included-twice-nested", "component-in-capture", "included-in-loop",
          \* a component called WITH A BODY: the call site is the opening tag
          "component-with-body"}
\* ---- errors raised ON THE RESULT of a sub-expression: what produces the operand x what consumes it.  The consumer fails
\* whenever the kind of the operand is not one it accepts; the error is an error value (never a panic: the engine needs a
\* span for the operand whatever produced it), consistent, inside the expression and not cutting the operand.
SitePairs == {pc \in (DOMAIN ProdKind) \X (DOMAIN ConsAccepts) : Fails(pc[1], pc[2])}
SiteHosts == {"entry", "component", "included", "component-with-body"}
SitePrefixes == {"none", "two-byte", "line2"}
Prefixes == {"none", "ascii", "two-byte", "three-byte", "four-byte", "line2", "line3-multibyte"}
\* delimiter sets: the default one, and one whose six delimiters are single 2-byte characters (columns count characters,
\* ranges count bytes: the two must still designate the same position)
Delims == {"default", "one-char-2-byte"}
VARIABLES mode, v, i
Init == \/ mode = "plant" /\ i = 0 /\ v \in [fault : RenderFaults, host : Hosts, prefix : Prefixes, syntax : {FALSE}, delims : Delims]
        \/ mode = "plant" /\ i = 0 /\ v \in [fault : SyntaxFaults, host : {"entry", "included", "parent-block", "component"}, prefix : Prefixes, syntax : {TRUE}, delims : Delims]
        \/ mode = "plant" /\ i = 0 /\ \E pc \in SitePairs, h \in SiteHosts, px \in SitePrefixes :
               v = [fault |-> "site:" \o pc[1] \o ":" \o pc[2], host |-> h, prefix |-> px, syntax |-> FALSE, delims |-> "default"]
        \/ mode = "obs" /\ i \in 1..Len(Obs) /\ v = [fault |-> "", host |-> "", prefix |-> "", syntax |-> FALSE, delims |-> ""]
Next == UNCHANGED <<mode, v, i>>
Emit == mode = "plant" => PrintT(<<"VEC", ToJson(v)>>)
InvConsistent == mode = "obs" => Consistent(Obs[i])
InvLocalises == mode = "obs" => Localises(Obs[i])
InvUncut == mode = "obs" => Uncut(Obs[i])
InvRightTemplate == mode = "obs" => RightTemplate(Obs[i])
InvQuoted == mode = "obs" => Quoted(Obs[i])
InvNotes == mode = "obs" => Notes(Obs[i])
=============================================================================
