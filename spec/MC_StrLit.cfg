CONSTANT MaxUnits = 3
INIT Init
NEXT Next
INVARIANT InvLen
INVARIANT Emit
CHECK_DEADLOCK FALSE
