------------------------------ MODULE MC_StrLit ------------------------------
(***************************************************************************)
(* String literals (C14: every string the engine produces is measured,     *)
(* indexed and iterated by CHARACTERS; C02: literals): a literal is a      *)
(* sequence of units between two equal quote characters (' " or `).  A     *)
(* unit is a plain character (ASCII or multi-byte) or a backslash escape;  *)
(* \n \t \r \\ \/ \' \" decode to one character each, any other escape is  *)
(* a syntax error, and so is a quote of the literal's own kind written     *)
(* without a backslash (it ends the literal early).                        *)
(* Every sequence of <= MaxUnits units x quote kind is an initial state;   *)
(* the decoded characters (as unit names the harness spells) are emitted.  *)
(***************************************************************************)
EXTENDS Integers, Sequences, FiniteSets, TLC, Json
CONSTANT MaxUnits
Plain == {"a", "e2", "c3", "e4", "sp"}                     \* a  é  世  (4-byte emoji)  space
Esc == {"bn", "bt", "br", "bb", "bs", "bq1", "bq2"}        \* \n \t \r \\ \/ \' \"
BadEsc == {"bx", "b0"}                                     \* \x  \0 : not escapes of this language
Raw == {"q1", "q2"}                                        \* a ' or a " written without a backslash
Units == Plain \cup Esc \cup BadEsc \cup Raw
Quotes == {"q1", "q2", "q3"}                               \* '  "  `
DecodeU(u) == CASE u = "bn" -> "NL" [] u = "bt" -> "TAB" [] u = "br" -> "CR" [] u = "bb" -> "BSL" [] u = "bs" -> "SL" [] u = "bq1" -> "q1" [] u = "bq2" -> "q2" [] OTHER -> u
VARIABLES units, q
Init == q \in Quotes /\ units \in UNION {[1..n -> Units] : n \in 0..MaxUnits}
Next == UNCHANGED <<units, q>>
Bad == \E i \in 1..Len(units) : units[i] \in BadEsc \/ units[i] = q         \* an unknown escape, or the literal's own quote bare
Chars == [i \in 1..Len(units) |-> DecodeU(units[i])]
\* one unit, one character: the decoded length is the number of units
InvLen == ~Bad => Len(Chars) = Len(units)
Emit == PrintT(<<"VEC", ToJson([units |-> units, q |-> q, ok |-> ~Bad, chars |-> IF Bad THEN <<>> ELSE Chars])>>)
=============================================================================
