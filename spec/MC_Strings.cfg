CONSTANT MaxLen = 3
INIT Init
NEXT Next
INVARIANT InvCaseOnly
INVARIANT InvTrimEnds
INVARIANT InvTruncate
INVARIANT InvSplitJoin
INVARIANT Emit
CHECK_DEADLOCK FALSE
