------------------------------ MODULE MC_Strings ------------------------------
EXTENDS Strings, Json
CONSTANT MaxLen
VARIABLES s, done
\* long strings: the representation of a string changes with its size in bytes (up to 23 bytes it is held inline), which no
\* string of MaxLen tokens reaches; every word of one or two tokens repeated up to 24 tokens (24 to 48 bytes) is in the universe
RECURSIVE Rep(_, _)
Rep(w, k) == IF k = 0 THEN <<>> ELSE w \o Rep(w, k - 1)
LongStrs == {Rep(w, 24 \div Len(w)) : w \in [1..1 -> Alphabet] \cup [1..2 -> Alphabet]}
TruncLens == (0..(MaxLen + 1)) \cup (IF Len(s) > MaxLen THEN {Len(s) - 1, Len(s), Len(s) + 1} ELSE {})
Init == s \in UNION {[1..n -> Alphabet] : n \in 0..MaxLen} \cup LongStrs /\ done = FALSE
Next == ~done /\ done' = TRUE /\ UNCHANGED s
\* the laws of the statement on the reference itself
CaseOnly(r) == r.r = "ok" => Len(r.s) = Len(s) /\ \A i \in 1..Len(s) : Lo(r.s[i]) = Lo(s[i])
InvCaseOnly == done => CaseOnly(Upper(s)) /\ CaseOnly(Lower(s)) /\ CaseOnly(Capitalize(s)) /\ CaseOnly(Title(s))
IsSuffix(a, b) == Len(a) <= Len(b) /\ SubSeq(b, Len(b) - Len(a) + 1, Len(b)) = a
IsPrefix(a, b) == Len(a) <= Len(b) /\ SubSeq(b, 1, Len(a)) = a
InvTrimEnds == done => IsSuffix(TrimStart(s).s, s) /\ IsPrefix(TrimEnd(s).s, s) /\ Trim(s).s = TrimEnd(TrimStart(s).s).s
InvTruncate == done => \A n \in TruncLens : LET r == Truncate(s, n, "~") IN r.r = "ok" => (Len(s) <= n => r.s = s) /\ (Len(s) > n => Len(r.s) = n + 1)
InvSplitJoin == done => \A p \in {"dot", "sp"} : LET parts == Split(s, p) IN
                  Len(parts) = 1 + Cardinality({i \in 1..Len(s) : s[i] = p})
R(x) == [r |-> x.r, s |-> x.s]
Emit == done => PrintT(<<"VEC", ToJson([s |-> s, upper |-> R(Upper(s)), lower |-> R(Lower(s)), capitalize |-> R(Capitalize(s)), title |-> R(Title(s)),
   trim |-> R(Trim(s)), trim_start |-> R(TrimStart(s)), trim_end |-> R(TrimEnd(s)), trim_dot |-> R(TrimPat(s, "dot")), trim_start_a |-> R(TrimStartPat(s, "a")),
   trim_end_dot |-> R(TrimEndPat(s, "dot")), trunc |-> [n \in TruncLens |-> R(Truncate(s, n, "~"))], replace_a |-> R(Replace(s, "a", "lt")),
   replace_nl |-> R(Replace(s, "nl", "dot")), br |-> R(NewlinesToBr(s)), esc_html |-> R(EscapeHtml(s)), esc_xml |-> R(EscapeXml(s)), wordcount |-> WordCount(s),
   indent |-> [f \in {"ff", "tf", "ft", "tt"} |-> R(Indent(s, f \in {"tf", "tt"}, f \in {"ft", "tt"}))], split_dot |-> Split(s, "dot")])>>)
=============================================================================
