INIT Init
NEXT Next
INVARIANT InvEmptyList
INVARIANT InvEmptySuffix
INVARIANT InvWholeName
INVARIANT Emit
CHECK_DEADLOCK FALSE
