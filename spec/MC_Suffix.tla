------------------------------ MODULE MC_Suffix ------------------------------
(***************************************************************************)
(* C01, "by name suffix": a template is autoescaped iff its NAME ENDS WITH *)
(* one of the configured suffixes (default: .html .htm .xml; an empty list *)
(* switches autoescaping off everywhere).  Names and suffixes are          *)
(* sequences of characters; every (name, configuration) pair in the        *)
(* universe is an initial state.                                           *)
(***************************************************************************)
EXTENDS Integers, Sequences, FiniteSets, TLC, Json
IsSuffix(s, n) == Len(s) <= Len(n) /\ SubSeq(n, Len(n) - Len(s) + 1, Len(n)) = s
Autoescaped(n, cfg) == \E i \in 1..Len(cfg) : IsSuffix(cfg[i], n)
C(str) == str      \* strings are written as tuples of one-character strings below
Html == <<".", "h", "t", "m", "l">>
Htm == <<".", "h", "t", "m">>
Xml == <<".", "x", "m", "l">>
Txt == <<".", "t", "x", "t">>
Names == { <<"t">> \o Html, <<"t">> \o Htm, <<"t">> \o Xml, <<"t">> \o Txt, <<"t">> \o Html \o Txt, <<"t">> \o Txt \o Html, Html, <<"h", "t", "m", "l">>,
           <<"t", "h", "t", "m", "l">>, <<"t", ".", "x", "h", "t", "m", "l">>, <<"t", ".", "H", "T", "M", "L">>, <<"t">> \o Html \o <<"/", "a">>,
           <<"a", "/">> \o <<"t">> \o Html, <<"t">> \o Html \o <<" ">>, <<"t", ".", "h", "t", "m", "l", "l">>, <<"t">>, <<"t", ".", "p", "h", "p">> \o Html }
Configs == { <<Html, Htm, Xml>>,                 \* the default
             <<>>, <<Html>>, <<Txt>>, <<Txt, Html>>, << <<".", "p", "h", "p">> \o Html >>, << <<"l">> >>, << <<"t">> \o Html >>, << <<>> >> }
VARIABLES n, cfg
Init == n \in Names /\ cfg \in Configs
Next == UNCHANGED <<n, cfg>>
\* laws of the rule: monotone in the configuration, the empty list escapes nothing, the empty suffix escapes everything
InvEmptyList == cfg = <<>> => ~Autoescaped(n, cfg)
InvEmptySuffix == (\E i \in 1..Len(cfg) : cfg[i] = <<>>) => Autoescaped(n, cfg)
InvWholeName == (\E i \in 1..Len(cfg) : cfg[i] = n) => Autoescaped(n, cfg)
Emit == PrintT(<<"VEC", ToJson([n |-> n, cfg |-> cfg, ae |-> Autoescaped(n, cfg), default |-> cfg = <<Html, Htm, Xml>>])>>)
=============================================================================
