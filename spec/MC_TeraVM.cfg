INIT Init
NEXT Next
INVARIANT InvBalanced
INVARIANT InvErrHasSpan
INVARIANT InvJumpOk
INVARIANT InvRefsResolved
CHECK_DEADLOCK TRUE
