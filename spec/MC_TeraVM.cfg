INIT Init
NEXT Next
INVARIANT InvBalanced
INVARIANT InvErrHasSpan
INVARIANT InvJumpOk
CHECK_DEADLOCK TRUE
