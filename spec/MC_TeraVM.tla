----------------------------- MODULE MC_TeraVM -----------------------------
(***************************************************************************)
(* TLC on REAL bytecode: the chunks of compiled templates, dumped through  *)
(* the cfg(tera_verif) listing hook, are the program constant.  TLC        *)
(* explores every execution of every chunk under every abstract context    *)
(* (each name load / call result is any abstract value), with deadlock     *)
(* checking ON: a state where the next instruction lacks its operands has  *)
(* no successor, which is how a pop/peek/unwrap panic shows up.            *)
(***************************************************************************)
EXTENDS TeraVM, Json, IOUtils
Chunks == ndJsonDeserialize(IOEnv.CHUNKS)
VARIABLES c, f
vars == <<c, f>>
Code == Chunks[c].code
Init == c \in {i \in 1..Len(Chunks) : Len(Chunks[i].code) > 0} /\ f = Frame0
Step == f' \in Succ(Code, f) /\ UNCHANGED c
Halt == Halted(Code, f) /\ f' = [f EXCEPT !.st = "done"] /\ UNCHANGED c
Term == f.st # "run" /\ UNCHANGED vars
Next == Step \/ Halt \/ Term
InvBalanced == Balanced(f)
InvErrHasSpan == ErrHasSpan(f)
InvJumpOk == JumpOk(Code, f)
=============================================================================
