----------------------------- MODULE MC_TeraVM -----------------------------
(***************************************************************************)
(* TLC on REAL bytecode: the chunks of compiled templates, dumped through  *)
(* the cfg(tera_verif) listing hook, are the program constant.  TLC        *)
(* explores every execution of every chunk under every abstract context    *)
(* (each name load / call result is any abstract value), with deadlock     *)
(* checking ON: a state where the next instruction lacks its operands has  *)
(* no successor, which is how a pop/peek/unwrap panic shows up.            *)
(***************************************************************************)
EXTENDS TeraVM, Json, IOUtils
Chunks == ndJsonDeserialize(IOEnv.CHUNKS)
VARIABLES c, f
vars == <<c, f>>
Code == Chunks[c].code
Init == c \in {i \in 1..Len(Chunks) : Len(Chunks[i].code) > 0} /\ f = Frame0
Step == f' \in Succ(Code, f) /\ UNCHANGED c
Halt == Halted(Code, f) /\ f' = [f EXCEPT !.st = "done"] /\ UNCHANGED c
Term == f.st # "run" /\ UNCHANGED vars
Next == Step \/ Halt \/ Term
InvBalanced == Balanced(f)
InvErrHasSpan == ErrHasSpan(f)
InvJumpOk == JumpOk(Code, f)
(***************************************************************************)
(* RefsResolved (C07, reference clause): whatever was ACCEPTED contains no *)
(* dangling reference, reachable or not.  The built-in names come from the *)
(* signature table of the specification (Sigs), the registered extras      *)
(* (`x`: what the harness registered for the job) and the job's own        *)
(* templates / blocks / components from the listing the chunk came with.   *)
(* Evaluated once per chunk (on its initial state) over the WHOLE code, so *)
(* an instruction no abstract execution reaches is covered too.            *)
(***************************************************************************)
S == INSTANCE Sigs
NamesOf(sigs) == {sigs[i].name : i \in 1..Len(sigs)}
SeqSet(q) == {q[i] : i \in 1..Len(q)}
Resolved(k, i) ==
  CASE i.op = "ApplyFilter" -> i.a[1] \in NamesOf(S!Filters) \cup SeqSet(k.filters)
    [] i.op = "RunTest" -> i.a[1] \in NamesOf(S!Tests) \cup SeqSet(k.tests)
    [] i.op = "CallFunction" -> i.a[1] \in NamesOf(S!Functions) \cup SeqSet(k.functions) \cup {"super"}
    [] i.op \in {"RenderInlineComponent", "RenderBodyComponent"} -> i.a[1] \in SeqSet(k.components)
    [] i.op = "Include" -> i.a[1] \in SeqSet(k.templates)
    [] i.op = "RenderBlock" -> i.a[1] \in SeqSet(k.blocks)
    [] OTHER -> TRUE
InvRefsResolved == f = Frame0 => \A n \in 1..Len(Code) : Resolved(Chunks[c].known, Code[n])
=============================================================================
