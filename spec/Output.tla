-------------------------------- MODULE Output --------------------------------
(***************************************************************************)
(* C18: output channels, write failures, purity, threads.                  *)
(*                                                                         *)
(* A render is a sequence of write_all calls w_1 .. w_n (byte counts).     *)
(* The writer has ONE failure point:                                       *)
(*   [m |-> "call", k]    the k-th call to write fails (k = 0: never)      *)
(*   [m |-> "budget", k]  it accepts k bytes in total, then a short write  *)
(*                        and an error                                     *)
(*   [m |-> "chunk", k]   it never fails but takes at most k bytes per call *)
(* Run(ws, f) is what a correct engine leaves behind: the bytes accepted   *)
(* (a prefix of the full output), whether the render returns Ok, and how   *)
(* many write calls the writer saw.                                        *)
(***************************************************************************)
EXTENDS Integers, Sequences, FiniteSets, TLC
RECURSIVE Sum(_, _)
Sum(ws, k) == IF k = 0 THEN 0 ELSE ws[k] + Sum(ws, k - 1)            \* bytes of the first k writes
Total(ws) == Sum(ws, Len(ws))
\* number of the write_all call during which budget k runs out (0: never)
RECURSIVE FirstOver(_, _, _)
FirstOver(ws, k, i) == IF i > Len(ws) THEN 0 ELSE IF Sum(ws, i) > k THEN i ELSE FirstOver(ws, k, i + 1)
Run(ws, f) ==
  \* a writer that accepts at most k bytes per call and never fails is a correct writer: everything arrives
  IF f.m = "chunk" THEN [ok |-> TRUE, accepted |-> Total(ws)]
  ELSE IF f.m = "call" THEN
    IF f.k = 0 \/ f.k > Len(ws) THEN [ok |-> TRUE, accepted |-> Total(ws)]
    ELSE [ok |-> FALSE, accepted |-> Sum(ws, f.k - 1)]                 \* everything before the failing call, nothing after
  ELSE
    IF f.k >= Total(ws) THEN [ok |-> TRUE, accepted |-> Total(ws)]
    ELSE [ok |-> FALSE, accepted |-> f.k]                               \* exactly the budget: the short write is kept
\* the laws of the statement, on the specification itself
PrefixLaw(ws, f) == Run(ws, f).accepted <= Total(ws)
OkIffComplete(ws, f) == Run(ws, f).ok <=> Run(ws, f).accepted = Total(ws) /\ (f.m = "call" => f.k = 0 \/ f.k > Len(ws))
                                                                          /\ (f.m = "budget" => f.k >= Total(ws))
Monotone(ws, f, g) == (f.m = g.m /\ f.k <= g.k /\ f.k > 0) => Run(ws, f).accepted <= Run(ws, g).accepted

\* ---- concurrency (design check): N renders over private state and a read-only registry; the only shared step
\* is the one-time initialisation of a lazily created static.  Every interleaving leaves every output equal to
\* the sequential one.
=============================================================================
