------------------------------ MODULE ParserDepth ------------------------------
(***************************************************************************)
(* C06: registering any source text ends in Ok or Err.                     *)
(* What TLA+ contributes here: a pushdown model of the recursion of the    *)
(* parser and compiler and of the counters the code keeps, which says      *)
(* WHICH SHAPES drive recursion, and the limits as an invariant.           *)
(*                                                                         *)
(* NESTED productions re-enter parse_expression / parse_until (one Rust    *)
(* frame group per level) and are counted against the parser's limit.      *)
(* CHAIN productions (left-leaning: a op b op c ..., elif ... elif ...,    *)
(* x | f | g, a.b.c, a[0][1], x is t) are built by a loop in the parser    *)
(* but produce a left-deep tree that the compiler (and Drop) walk          *)
(* recursively: one frame per link.                                        *)
(* ChainsCounted = FALSE is the pinned code (no counter on chains).        *)
(***************************************************************************)
EXTENDS Integers, Sequences, FiniteSets, TLC
CONSTANTS Limit,          \* the parser's nesting limit (its value is measured by the harness, 40 in the pinned tree)
          B,              \* what "bounded" means here: live frames never exceed B, whatever the input length
          MaxN,           \* exploration bound on input size
          ChainsCounted
Nested == {"paren", "array", "map", "subscript", "call_args", "not", "neg", "ternary", "pow", "if", "for", "filter_section", "set_block", "block", "component_body", "comprehension",
           \* expressions re-entered from component-call attributes, spreads, call arguments, slice bounds
           "component_spread", "component_attr", "map_spread", "filter_arg", "test_arg", "slice_bound", "opt_subscript",
           \* subscripts on something that is not a name (a literal, a string, a call, a parenthesis, an array), and
           \* ALTERNATIONS of two productions: a counter kept per production, or reset by another production, is no limit
           "lit_subscript", "str_subscript", "call_subscript", "paren_subscript", "array_subscript", "mixed_subscript", "lit_slice_bound",
           "alt_paren_subscript", "alt_array_map", "alt_call_array", "alt_neg_paren", "alt_not_paren", "alt_ternary_paren", "alt_filter_arg_subscript",
           "alt_if_for", "alt_set_filter_section", "alt_comprehension_paren"}
Chains == {"elif", "binop", "and_or", "filter", "attribute", "subscript_chain", "test", "concat"}
VARIABLES depth, chain, status, shape
vars == <<depth, chain, status, shape>>
Init == depth = 0 /\ chain = 0 /\ status = "run" /\ shape \in Nested \cup Chains
\* one more level of the same nested production
Open == /\ status = "run" /\ shape \in Nested /\ depth < MaxN
        /\ IF depth + 1 > Limit THEN status' = "rejected" /\ UNCHANGED depth ELSE depth' = depth + 1 /\ UNCHANGED status
        /\ UNCHANGED <<chain, shape>>
\* one more link of the same chain production
Extend == /\ status = "run" /\ shape \in Chains /\ chain < MaxN
          /\ IF ChainsCounted /\ chain + 1 > Limit THEN status' = "rejected" /\ UNCHANGED chain ELSE chain' = chain + 1 /\ UNCHANGED status
          /\ UNCHANGED <<depth, shape>>
Next == Open \/ Extend \/ UNCHANGED vars
Live == depth + chain
DepthBounded == Live <= B
\* what the harness must observe for input size n of a shape: "rejected" | "ok"; and the predicted gauge
Predict(s, n) == IF s \in Nested THEN (IF n > Limit THEN [r |-> "rejected", gauge |-> Limit] ELSE [r |-> "ok", gauge |-> n])
                 ELSE IF ChainsCounted /\ n > Limit THEN [r |-> "rejected", gauge |-> Limit]
                 ELSE [r |-> "ok", gauge |-> n]
=============================================================================
