------------------------------- MODULE PySlice -------------------------------
(***************************************************************************)
(* C14: indexing and slicing follow Python.  Positions are 0-based         *)
(* integers; a container of length len is abstractly 0..len-1 and every    *)
(* operation is specified by the SEQUENCE OF POSITIONS it selects, so the  *)
(* same definition covers arrays and strings (by character).               *)
(* Integers beyond any length ("huge": 2^63, i128::MAX, u128::MAX, ...) are *)
(* the two symbolic values HP / HN; ABS is an absent bound.                *)
(* Transcribed from CPython's PySlice_AdjustIndices / PySlice_Unpack.      *)
(***************************************************************************)
EXTENDS Integers, Sequences, FiniteSets, TLC
ABS == 99
HP == 77
HN == -77
\* clamp one explicit bound for a given step sign
Adj(x, len, st) ==
  IF x = HP THEN (IF st < 0 THEN len - 1 ELSE len)
  ELSE IF x = HN THEN (IF st < 0 THEN -1 ELSE 0)
  ELSE IF x < 0 THEN (IF x + len < 0 THEN (IF st < 0 THEN -1 ELSE 0) ELSE x + len)
  ELSE IF x >= len THEN (IF st < 0 THEN len - 1 ELSE len)
  ELSE x
\* a step whose magnitude exceeds the length selects what +-(len+1) selects
StepOf(c, len) == IF c = ABS THEN 1 ELSE IF c = HP THEN len + 1 ELSE IF c = HN THEN -(len + 1) ELSE c
StartOf(a, len, st) == IF a = ABS THEN (IF st < 0 THEN len - 1 ELSE 0) ELSE Adj(a, len, st)
StopOf(b, len, st) == IF b = ABS THEN (IF st < 0 THEN -1 ELSE len) ELSE Adj(b, len, st)
RECURSIVE Walk(_, _, _)
Walk(i, stop, st) == IF (st > 0 /\ i < stop) \/ (st < 0 /\ i > stop) THEN <<i>> \o Walk(i + st, stop, st) ELSE <<>>
\* x[a:b:c] : an error (ok = FALSE) for a zero step, else the selected positions in order
Slice(len, a, b, c) ==
  IF c = 0 THEN [ok |-> FALSE, s |-> <<>>]
  ELSE LET st == StepOf(c, len) IN [ok |-> TRUE, s |-> Walk(StartOf(a, len, st), StopOf(b, len, st), st)]
\* x[i] : the position, or undefined (def = FALSE) when out of range (never an error)
Index(len, i) ==
  IF i \in {HP, HN} THEN [def |-> FALSE, i |-> 0]
  ELSE LET j == IF i < 0 THEN i + len ELSE i IN IF j >= 0 /\ j < len THEN [def |-> TRUE, i |-> j] ELSE [def |-> FALSE, i |-> 0]
\* character-wise string operations, again as selected positions
Reverse(len) == [k \in 1..len |-> len - k]
Each(len) == [k \in 1..len |-> k - 1]
\* truncate(length = n): at most n characters, then the end marker iff something was cut
Truncate(len, n) == [keep |-> [k \in 1..(IF n < len THEN n ELSE len) |-> k - 1], marker |-> n < len]

\* ---- laws the definitions must satisfy (checked by TLC on the spec itself)
InRange(len, s) == \A k \in 1..Len(s) : s[k] >= 0 /\ s[k] < len
Monotone(s, c) == \A k \in 1..(Len(s) - 1) : IF c \in {ABS, HP} \/ (c # HN /\ c > 0) THEN s[k] < s[k + 1] ELSE s[k] > s[k + 1]
\* independent characterisation for unit steps: a contiguous run
UnitRun(len, a, b) == LET s == Slice(len, a, b, 1).s IN \A k \in 1..(Len(s) - 1) : s[k + 1] = s[k] + 1
=============================================================================
