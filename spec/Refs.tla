---------------------------------- MODULE Refs ----------------------------------
(***************************************************************************)
(* C07, reference clause of Registry!Accept: every filter, test, function, *)
(* component, included template and parent that rendering can reach is     *)
(* verified when the templates are added, WHEREVER it is used.  A planting *)
(* is a (kind of reference, syntactic position) pair; the set of templates *)
(* that contains one unknown reference must be refused as a whole and      *)
(* leave nothing registered — also when the position is never executed.    *)
(***************************************************************************)
EXTENDS Integers, Sequences, FiniteSets, TLC, Json
Kinds == {"filter", "test", "function", "component", "include", "parent"}
ExprPositions == {"body", "dead-branch", "block", "nested-block", "component-definition-body", "kwarg-value", "component-attribute",
                  "spread-operand", "comprehension-source", "comprehension-condition", "ternary-branch", "for-target", "for-else", "component-call-body",
                  "set-value", "set-block-body", "filter-section-body", "if-condition", "elif-condition", "map-literal-value", "subscript", "included-template",
                  "parent-block", "macro-default-chain"}
FilterOnly == {"set-block-filter", "filter-section-name"}
StmtPositions == {"body", "dead-branch", "block", "nested-block", "component-definition-body", "for-else", "component-call-body", "set-block-body",
                  "filter-section-body", "included-template", "parent-block"}
Applicable(k, p) == CASE k \in {"filter"} -> p \in (ExprPositions \cup FilterOnly) \ {"macro-default-chain"}
                      [] k \in {"test", "function", "component"} -> p \in ExprPositions \ {"macro-default-chain"}
                      [] k = "include" -> p \in StmtPositions
                      [] k = "parent" -> p \in {"body", "included-template"}
\* the registry must refuse the batch and stay empty; the refusal is a registration error (any class)
Expect(k, p) == [accepted |-> FALSE, registered |-> {}]
\* histories: a set that uses a component (at position p) and its provider is accepted; RE-ADDING the provider without the
\* component would leave the use dangling: the call must be refused and the instance must behave as before
VARIABLES k, p, mode
Init == \/ mode = "planting" /\ k \in Kinds /\ p \in ExprPositions \cup FilterOnly \cup StmtPositions /\ Applicable(k, p)
        \/ mode = "drop-provider" /\ k = "component" /\ p \in ExprPositions \ {"macro-default-chain"}
Next == UNCHANGED <<k, p, mode>>
Emit == PrintT(<<"VEC", ToJson([mode |-> mode, kind |-> k, pos |-> p, expect |-> [accepted |-> FALSE]])>>)
=============================================================================
