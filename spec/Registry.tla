------------------------------ MODULE Registry ------------------------------
(***************************************************************************)
(* The Tera instance as a state machine (C10, C11, C04, parts of C05/C07): *)
(* a set of named templates, each abstracted to a DESCRIPTOR of what       *)
(* matters for registration and inheritance, the fallback prefixes and the *)
(* autoescape suffixes.  Adding a batch either installs the resulting set  *)
(* (when Accept holds) or changes nothing.                                 *)
(*                                                                         *)
(* Accept, Lineage and the declarative render are written from the         *)
(* statements of C04/C10/C11/C07, not from finalize_templates; AlgoLineage *)
(* has the shape of the code and TLC checks that the two agree.            *)
(*                                                                         *)
(* Descriptor d of a template:                                             *)
(*   syn      the source parses                                            *)
(*   ext      `extends` target ("" none), as written (bare name)           *)
(*   inc      `include` target ("" none); incpos: "body" | "block" | "comp"*)
(*   a, b     definition of blocks a and b: "none" | "def" | "super"       *)
(*   nest     block b is written INSIDE block a (only if both are defined) *)
(*   cap      the nested b sits inside a filter section (a capture)        *)
(*   sa       in block a, super() is written AFTER the nested block b      *)
(*   z        a top-level block z no ancestor knows (orphan when extending)*)
(*   unk      references an unknown filter                                 *)
(*   comp     defines component c1; usec: calls component c1               *)
(* The harness prints a descriptor as template text (render_glue.py).      *)
(***************************************************************************)
EXTENDS Integers, Sequences, FiniteSets, TLC
CONSTANT Prefixes          \* fallback prefixes in priority order, e.g. <<"p/">>

Absent == [syn |-> FALSE, ext |-> "", inc |-> "", incpos |-> "", a |-> "none", b |-> "none", nest |-> FALSE, cap |-> FALSE, sa |-> FALSE,
           z |-> FALSE, unk |-> FALSE, comp |-> FALSE, usec |-> FALSE, here |-> FALSE,
           v2 |-> FALSE,
           sib |-> FALSE,     \* sib: block a holds, after its nested block b, a second NEW block c (siblings introduced inside a)
           deep |-> FALSE]    \* deep: the nested block b holds a NEW block c and calls super() AFTER it (three levels of nesting)      \* v2: the same template with other literal text of the SAME length (M for L, [ for ( )
Leaf == [Absent EXCEPT !.syn = TRUE, !.here = TRUE]
Present(T) == {n \in DOMAIN T : T[n].here}

\* ---- name resolution: exact names first, then the prefixes in order
RECURSIVE ResolveP(_, _, _)
ResolveP(T, t, i) == IF i > Len(Prefixes) THEN ""
                     ELSE IF (Prefixes[i] \o t) \in Present(T) THEN Prefixes[i] \o t ELSE ResolveP(T, t, i + 1)
Resolve(T, t) == IF t = "" THEN "" ELSE IF t \in Present(T) THEN t ELSE ResolveP(T, t, 1)
ExtOf(T, n) == Resolve(T, T[n].ext)
IncOf(T, n) == Resolve(T, T[n].inc)

\* ---- graphs
RECURSIVE Walk(_, _, _, _)
Walk(T, F(_, _), n, k) == IF k = 0 \/ n = "" THEN n ELSE Walk(T, F, F(T, n), k - 1)
Card(T) == Cardinality(Present(T))
CyclicFrom(T, F(_, _), n) == \E k \in 1..Card(T) : Walk(T, F, n, k) = n
\* a walk from n reaches a cycle (possibly through a tail)
ReachesCycle(T, F(_, _), n) == \E k \in 0..Card(T) : LET m == Walk(T, F, n, k) IN m # "" /\ CyclicFrom(T, F, m)
DanglingExt(T, n) == T[n].ext # "" /\ ExtOf(T, n) = ""
DanglingInc(T, n) == T[n].inc # "" /\ IncOf(T, n) = ""

\* chain of a template: itself, nearest ancestor, ..., root (requires an acyclic, non-dangling extends walk)
RECURSIVE Chain(_, _, _)
Chain(T, n, fuel) == IF n = "" \/ fuel = 0 THEN <<>> ELSE <<n>> \o Chain(T, ExtOf(T, n), fuel - 1)
ChainOf(T, n) == Chain(T, n, Card(T))
Ancestors(T, n) == Tail(ChainOf(T, n))                      \* nearest first
RECURSIVE Rev(_)
Rev(s) == IF s = <<>> THEN <<>> ELSE Rev(Tail(s)) \o <<Head(s)>>
Parents(T, n) == Rev(Ancestors(T, n))                       \* root first, as the engine stores them
Defines(d, blk) == IF blk = "a" THEN d.a # "none" ELSE IF blk = "b" THEN d.b # "none"
                   ELSE IF blk = "c" THEN (d.sib \/ d.deep) /\ d.nest /\ d.a # "none" /\ d.b # "none" ELSE d.z
Supers(d, blk) == IF blk = "a" THEN d.a = "super" ELSE IF blk = "b" THEN d.b = "super" ELSE FALSE
TopLevel(d, blk) == Defines(d, blk) /\ ~(blk = "b" /\ d.nest /\ d.a # "none")
Blocks == {"a", "b", "z"}

\* ---- components: owner = the defining template of best priority; equal priorities clash
RECURSIVE PrioP(_, _)
HasPrefix(n, p) == \E t \in {"A", "B", "C", "D", "E"} : n = p \o t        \* names are prefix + one letter
PrioP(n, i) == IF i > Len(Prefixes) THEN 0 ELSE IF HasPrefix(n, Prefixes[i]) THEN i ELSE PrioP(n, i + 1)
Prio(n) == PrioP(n, 1)
Providers(T) == {n \in Present(T) : T[n].comp}
CompClash(T) == \E n, m \in Providers(T) : n # m /\ Prio(n) = Prio(m)
CompOwner(T) == IF Providers(T) = {} THEN "" ELSE CHOOSE n \in Providers(T) : \A m \in Providers(T) : Prio(n) <= Prio(m)

\* ---- acceptance: the classes of failure that apply to a set (several may)
ExtOk(T) == \A n \in Present(T) : ~DanglingExt(T, n) /\ ~ReachesCycle(T, ExtOf, n)
Fails(T) ==
  {"CircularExtend" : n \in {m \in Present(T) : ReachesCycle(T, ExtOf, m) /\ ~(\E k \in 0..Card(T) : LET w == Walk(T, ExtOf, m, k) IN w # "" /\ DanglingExt(T, w))}}
  \cup {"MissingParent" : n \in {m \in Present(T) : \E k \in 0..Card(T) : LET w == Walk(T, ExtOf, m, k) IN w # "" /\ DanglingExt(T, w)}}
  \cup {"CircularInclude" : n \in {m \in Present(T) : ReachesCycle(T, IncOf, m)}}
  \cup {"Msg" : n \in {m \in Present(T) : T[m].unk \/ DanglingInc(T, m) \/ (T[m].usec /\ Providers(T) = {})}}
  \cup {"Msg" : n \in {m \in Present(T) : CompClash(T)}}
  \* a child's top-level block must exist in some ancestor
  \cup {"Msg" : n \in {m \in Present(T) : ExtOk(T) /\ T[m].ext # "" /\
                        \E blk \in Blocks : TopLevel(T[m], blk) /\ ~(\E i \in 1..Len(Ancestors(T, m)) : Defines(T[Ancestors(T, m)[i]], blk))}}
Accept(T) == Fails(T) = {}

\* ---- lineage of block blk as seen from template n: templates of origin, most derived first
\* declaratively: start at the first level of the chain that defines blk; go on to the next defining level while super() is called
RECURSIVE LinFrom(_, _, _, _)
LinFrom(T, chain, i, blk) ==
  IF i > Len(chain) THEN <<>>
  ELSE IF ~Defines(T[chain[i]], blk) THEN LinFrom(T, chain, i + 1, blk)
  ELSE <<chain[i]>> \o (IF Supers(T[chain[i]], blk) THEN LinFrom(T, chain, i + 1, blk) ELSE <<>>)
Lineage(T, n, blk) == LinFrom(T, ChainOf(T, n), 1, blk)
\* in the shape of finalize_templates: own definition, then the parents nearest-first while super is called (skipping
\* parents without the block, stopping at the first that does not call super); afterwards blocks a template does not
\* define are filled in from its parents, nearest first
RECURSIVE OwnUp(_, _, _, _)
OwnUp(T, anc, i, blk) == IF i > Len(anc) THEN <<>>
                         ELSE IF ~Defines(T[anc[i]], blk) THEN OwnUp(T, anc, i + 1, blk)
                         ELSE <<anc[i]>> \o (IF Supers(T[anc[i]], blk) THEN OwnUp(T, anc, i + 1, blk) ELSE <<>>)
OwnLineage(T, n, blk) == IF ~Defines(T[n], blk) THEN <<>>
                         ELSE <<n>> \o (IF Supers(T[n], blk) THEN OwnUp(T, Ancestors(T, n), 1, blk) ELSE <<>>)
RECURSIVE Fill(_, _, _, _)
Fill(T, anc, i, blk) == IF i > Len(anc) THEN <<>>
                        ELSE IF OwnLineage(T, anc[i], blk) # <<>> THEN OwnLineage(T, anc[i], blk) ELSE Fill(T, anc, i + 1, blk)
AlgoLineage(T, n, blk) == IF OwnLineage(T, n, blk) # <<>> THEN OwnLineage(T, n, blk) ELSE Fill(T, Ancestors(T, n), 1, blk)

\* ---- declarative render (text as a TLA+ string built with \o); "?" marks what the statements leave open
RECURSIVE Own(_, _, _), BlockText(_, _, _, _, _, _), RB(_, _, _, _), Body(_, _, _, _)
\* block blk rendered for entry template `entry`, at level lvl of its lineage
BlockText(T, entry, blk, lvl, fuel, mode) ==
  LET lin == Lineage(T, entry, blk) IN
  IF lvl > Len(lin) THEN "!nosuper!"
  ELSE LET t == lin[lvl] d == T[t] IN
       blk \o t \o (IF d.v2 THEN "[" ELSE "(")
       \o (IF Supers(d, blk) /\ ~(blk = "a" /\ d.sa) /\ ~(blk = "b" /\ d.deep) THEN BlockText(T, entry, blk, lvl + 1, fuel, mode) ELSE "")
       \o (IF blk = "a" /\ d.nest /\ d.b # "none" THEN RB(T, entry, "b", fuel) \o (IF d.sib THEN RB(T, entry, "c", fuel) ELSE "") ELSE "")
       \o (IF blk = "b" /\ d.deep THEN RB(T, entry, "c", fuel) ELSE "")
       \o (IF Supers(d, blk) /\ ((blk = "a" /\ d.sa) \/ (blk = "b" /\ d.deep)) THEN BlockText(T, entry, blk, lvl + 1, fuel, mode) ELSE "")
       \o (IF blk = "a" /\ d.inc # "" /\ d.incpos = "block" THEN Own(T, IncOf(T, t), fuel - 1) ELSE "")
       \o ")"
RB(T, entry, blk, fuel) == BlockText(T, entry, blk, 1, fuel, "")
\* the top level of template t, with blocks resolved for `entry`
Body(T, t, entry, fuel) ==
  LET d == T[t] IN
  (IF d.v2 THEN "M" ELSE "L") \o t \o ";"
  \o (IF d.inc # "" /\ d.incpos = "body" THEN Own(T, IncOf(T, t), fuel - 1) ELSE "")
  \o (IF d.a # "none" THEN RB(T, entry, "a", fuel) ELSE "")
  \o (IF TopLevel(d, "b") THEN RB(T, entry, "b", fuel) ELSE "")
  \o (IF d.z THEN RB(T, entry, "z", fuel) ELSE "")
  \* (the body of the component carries the version of its defining template: a replaced provider serves its NEW body
  \* although the signature of the component did not change)
  \o (IF d.usec THEN "C" \o CompOwner(T) \o (IF T[CompOwner(T)].v2 THEN "'" ELSE "") \o "[" \o (IF T[CompOwner(T)].inc # "" /\ T[CompOwner(T)].incpos = "comp"
                                                       THEN Own(T, IncOf(T, CompOwner(T)), fuel - 1) ELSE "") \o "]" ELSE "")
\* an included template renders its OWN top level with its own lineage (this engine; as in Tera v1).
\* When the included template itself extends another one the statements do not say what is meant: "?"
Own(T, m, fuel) == IF fuel <= 0 THEN "!loop!" ELSE IF T[m].ext # "" THEN "?" ELSE Body(T, m, m, fuel)
Render(T, n) == LET chain == ChainOf(T, n) IN Body(T, chain[Len(chain)], n, Card(T) + 1)
\* is blk written at all during the full render of n?  a block nested in an overridden block may never be reached.
\* (every level of a lineage is rendered, because a lineage continues only through super() calls)
Reached(T, n, blk) ==
  LET chain == ChainOf(T, n) root == T[chain[Len(chain)]] linA == Lineage(T, n, "a") IN
  CASE blk = "a" -> root.a # "none"
    [] blk = "z" -> root.z
    [] blk = "b" -> TopLevel(root, "b") \/ (root.a # "none" /\ \E k \in 1..Len(linA) : T[linA[k]].nest /\ T[linA[k]].b # "none")
\* rendering a single block by name returns exactly the text that block writes during the full render
RenderBlock(T, n, blk) == IF Lineage(T, n, blk) = <<>> THEN "!noblock!"
                          ELSE IF ~Reached(T, n, blk) THEN "" ELSE RB(T, n, blk, Card(T) + 1)
=============================================================================
