------------------------------- MODULE Render -------------------------------
(***************************************************************************)
(* Statement-level semantics of Tera templates (C03, C01):                 *)
(* if/elif/else, for/else with loop.*, break/continue, set / set_global,   *)
(* set-blocks and filter sections (captures), include, printing with       *)
(* autoescaping.  Written from the documentation and the statements of C01 *)
(* and C03, not from the compiler.                                         *)
(*                                                                         *)
(* A program is a sequence of TOKENS in source order (the same sequence    *)
(* the generator of MC_Render builds and the harness prints as template    *)
(* text).  Run(prog, env) is the reference interpreter.                    *)
(*                                                                         *)
(* Strings are CONCRETE: sequences of one-character strings with a         *)
(* Normal/Safe mark, Escape is the five documented replacements, a capture *)
(* yields the already-escaped text it collected, marked Safe, and every    *)
(* string-building operation returns a Normal string.  The expected output *)
(* is therefore exact text.                                                *)
(***************************************************************************)
EXTENDS Integers, Sequences, FiniteSets, TLC

\* ------------------------------------------------------------------ values
Undef == [k |-> "undef"]
NoneV == [k |-> "none"]
StrV(s, safe) == [k |-> "str", s |-> s, safe |-> safe]
IntV(n) == [k |-> "int", n |-> n]
BoolV(b) == [k |-> "bool", b |-> b]
ArrV(xs) == [k |-> "arr", xs |-> xs]
MapV(ks, vs) == [k |-> "map", ks |-> ks, vs |-> vs]          \* keys (strings) and values, position-wise

Truthy(v) == CASE v.k = "str" -> v.s # <<>> [] v.k = "int" -> v.n # 0 [] v.k = "bool" -> v.b
               [] v.k = "arr" -> v.xs # <<>> [] v.k = "map" -> v.ks # <<>> [] OTHER -> FALSE
DigitCh == <<"0", "1", "2", "3", "4", "5", "6", "7", "8", "9">>
RECURSIVE Dig(_)
Dig(n) == IF n < 10 THEN <<DigitCh[n + 1]>> ELSE Dig(n \div 10) \o <<DigitCh[(n % 10) + 1]>>
Showable(v) == v.k \in {"str", "int", "bool", "none"}
Show(v) == CASE v.k = "str" -> v.s
             [] v.k = "int" -> IF v.n < 0 THEN <<"-">> \o Dig(-v.n) ELSE Dig(v.n)
             [] v.k = "bool" -> IF v.b THEN <<"t", "r", "u", "e">> ELSE <<"f", "a", "l", "s", "e">>
             [] OTHER -> <<>>
\* what needs no escaping: Safe strings and the scalar kinds
IsSafe(v) == IF v.k = "str" THEN v.safe ELSE v.k \notin {"arr", "map"}
EscCh(c) == CASE c = "&" -> <<"&", "a", "m", "p", ";">> [] c = "<" -> <<"&", "l", "t", ";">>
              [] c = ">" -> <<"&", "g", "t", ";">> [] c = "\"" -> <<"&", "q", "u", "o", "t", ";">>
              [] c = "'" -> <<"&", "#", "3", "9", ";">> [] OTHER -> <<c>>
RECURSIVE Escape(_)
Escape(s) == IF s = <<>> THEN <<>> ELSE EscCh(Head(s)) \o Escape(Tail(s))
\* a configured escape function (Tera::set_escape_fn) replaces the default one at every sink
EscChB(c) == CASE c = "<" -> <<"[", "l", "t", "]">> [] c = "&" -> <<"[", "a", "m", "p", "]">> [] OTHER -> <<c>>
RECURSIVE EscapeB(_)
EscapeB(s) == IF s = <<>> THEN <<>> ELSE EscChB(Head(s)) \o EscapeB(Tail(s))
EscapeBy(fn, s) == IF fn = "brackets" THEN EscapeB(s) ELSE Escape(s)
Lower == <<"a", "b", "c", "d", "e", "f", "g", "h", "i", "j", "k", "l", "m", "n", "o", "p", "q", "r", "s", "t", "u", "v", "w", "x", "y", "z">>
UpperL == <<"A", "B", "C", "D", "E", "F", "G", "H", "I", "J", "K", "L", "M", "N", "O", "P", "Q", "R", "S", "T", "U", "V", "W", "X", "Y", "Z">>
UpCh(c) == IF \E i \in 1..26 : Lower[i] = c THEN UpperL[CHOOSE i \in 1..26 : Lower[i] = c] ELSE c
Upper(s) == [i \in 1..Len(s) |-> UpCh(s[i])]

\* ------------------------------------------------------------------ expressions
EVar(n) == [e |-> "var", n |-> n]
ELit(s) == [e |-> "lit", s |-> s]
ENum(v) == [e |-> "num", v |-> v]
ECat(a, b) == [e |-> "cat", a |-> a, b |-> b]
EFilt(f, a) == [e |-> "filt", f |-> f, a |-> a]
ELoop(f) == [e |-> "loop", f |-> f]
EAttr(a, n) == [e |-> "attr", a |-> a, n |-> n]
EIdx(a, i) == [e |-> "idx", a |-> a, i |-> i]
ENone == [e |-> "nil"]

\* ------------------------------------------------------------------ tokens
\* k kind; n, m names (loop variables, assigned name, filter, template); e expression
T(k, n, e, m) == [k |-> k, n |-> n, e |-> e, m |-> m]
Opens == {"if", "for", "forkv", "setblock", "setgblock", "filter"}

\* ------------------------------------------------------------------ state
\* out: written text; loops: <<[vars, i, len]>> innermost last; sets: name -> value; caps: capture buffers;
\* sig: "" | "break" | "continue" | "err" | "unspec"; up: scopes of the includers, nearest first
EmptyF == [z \in {} |-> 0]
St0(up) == [out |-> <<>>, loops |-> <<>>, sets |-> EmptyF, caps |-> <<>>, sig |-> "", up |-> up]
Has(f, n) == n \in DOMAIN f

RECURSIVE InLoops(_, _, _)
InLoops(loops, i, n) == IF i = 0 THEN Undef ELSE IF Has(loops[i].vars, n) THEN loops[i].vars[n] ELSE InLoops(loops, i - 1, n)
FoundInLoops(loops, n) == \E i \in 1..Len(loops) : Has(loops[i].vars, n)
RECURSIVE InUps(_, _, _)
\* (named deviation of the engine: a name an includer assigned an UNDEFINED value to — `set y = nope` — does not shadow
\* for the included template; the search goes on.  The statements do not cover assigning undefined.)
InUps(up, i, n) == IF i > Len(up) THEN [f |-> FALSE, v |-> Undef]
                   ELSE IF FoundInLoops(up[i].loops, n) /\ InLoops(up[i].loops, Len(up[i].loops), n).k # "undef"
                     THEN [f |-> TRUE, v |-> InLoops(up[i].loops, Len(up[i].loops), n)]
                   ELSE IF FoundInLoops(up[i].loops, n) THEN [f |-> FALSE, v |-> Undef]
                   ELSE IF Has(up[i].sets, n) /\ up[i].sets[n].k # "undef" THEN [f |-> TRUE, v |-> up[i].sets[n]]
                   ELSE IF Has(up[i].sets, n) THEN [f |-> FALSE, v |-> Undef]
                   ELSE InUps(up, i + 1, n)
\* innermost loop first, then assignments, then the includers' scopes, then the context, then the global context
Lookup(st, env, n) ==
  IF FoundInLoops(st.loops, n) THEN InLoops(st.loops, Len(st.loops), n)
  ELSE IF Has(st.sets, n) THEN st.sets[n]
  ELSE LET u == InUps(st.up, 1, n) IN
       IF u.f THEN u.v
       ELSE IF Has(env.ctx, n) THEN env.ctx[n]
       ELSE IF Has(env.gctx, n) THEN env.gctx[n]
       ELSE Undef

R(r, v) == [r |-> r, v |-> v]
RECURSIVE Eval(_, _, _)
Eval(x, st, env) ==
  CASE x.e = "var" -> R("ok", Lookup(st, env, x.n))
    [] x.e = "lit" -> R("ok", StrV(x.s, FALSE))
    [] x.e = "num" -> R("ok", IntV(x.v))
    [] x.e = "cat" -> LET a == Eval(x.a, st, env) b == Eval(x.b, st, env) IN
                      IF a.r # "ok" THEN a ELSE IF b.r # "ok" THEN b
                      ELSE IF ~Showable(a.v) \/ ~Showable(b.v) \/ a.v.k = "none" \/ b.v.k = "none" THEN R("unspec", Undef)
                      ELSE R("ok", StrV(Show(a.v) \o Show(b.v), FALSE))          \* `~` builds a new, Normal string
    [] x.e = "filt" -> LET a == Eval(x.a, st, env) IN
                       IF a.r # "ok" THEN a
                       ELSE CASE x.f = "upper" -> IF a.v.k = "str" THEN R("ok", StrV(Upper(a.v.s), FALSE)) ELSE R("err", Undef)
                              [] x.f = "safe" -> IF a.v.k = "str" THEN R("ok", StrV(a.v.s, TRUE)) ELSE R("unspec", Undef)
                              [] x.f = "length" -> IF a.v.k = "str" THEN R("ok", IntV(Len(a.v.s)))
                                                   ELSE IF a.v.k = "arr" THEN R("ok", IntV(Len(a.v.xs))) ELSE R("err", Undef)
                              [] x.f = "wrap" -> IF Showable(a.v) THEN R("ok", StrV(<<"<">> \o Show(a.v) \o <<">">>, FALSE)) ELSE R("unspec", Undef)
                              [] x.f = "wrap_safe" -> IF Showable(a.v) THEN R("ok", StrV(<<"<">> \o Show(a.v) \o <<">">>, TRUE)) ELSE R("unspec", Undef)
                              [] OTHER -> R("unspec", Undef)
    [] x.e = "loop" -> IF st.loops = <<>> THEN R("err", Undef)        \* `loop` is undefined outside a loop: a field of undefined
                       ELSE LET f == st.loops[Len(st.loops)] IN
                            CASE x.f = "index" -> R("ok", IntV(f.i + 1)) [] x.f = "index0" -> R("ok", IntV(f.i))
                              [] x.f = "first" -> R("ok", BoolV(f.i = 0)) [] x.f = "last" -> R("ok", BoolV(f.i = f.len - 1))
                              [] x.f = "length" -> R("ok", IntV(f.len)) [] OTHER -> R("unspec", Undef)
    [] x.e = "attr" -> LET a == Eval(x.a, st, env) IN
                       IF a.r # "ok" THEN a
                       ELSE IF a.v.k = "undef" THEN R("err", Undef)               \* only one level of undefined is tolerated
                       ELSE IF a.v.k = "map" /\ \E i \in 1..Len(a.v.ks) : a.v.ks[i] = x.n
                         THEN R("ok", a.v.vs[CHOOSE i \in 1..Len(a.v.ks) : a.v.ks[i] = x.n])
                       ELSE R("ok", Undef)
    [] x.e = "idx" -> LET a == Eval(x.a, st, env) IN
                      IF a.r # "ok" THEN a
                      ELSE IF a.v.k = "undef" THEN R("err", Undef)
                      ELSE IF a.v.k = "arr" THEN R("ok", IF x.i < Len(a.v.xs) THEN a.v.xs[x.i + 1] ELSE Undef)
                      ELSE IF a.v.k = "str" THEN R("ok", IF x.i < Len(a.v.s) THEN StrV(<<a.v.s[x.i + 1]>>, a.v.safe) ELSE Undef)
                      ELSE R("unspec", Undef)
    [] OTHER -> R("unspec", Undef)

EmitTo(st, chars) == IF st.caps = <<>> THEN [st EXCEPT !.out = @ \o chars]
                   ELSE [st EXCEPT !.caps[Len(st.caps)] = @ \o chars]
Sig(st, s) == [st EXCEPT !.sig = s]
\* the sink: undefined cannot be printed; everything not Safe goes through the escaper when autoescaping is on
Write(st, env, v) == IF v.k = "undef" THEN Sig(st, "err")
                     ELSE IF ~Showable(v) THEN Sig(st, "unspec")
                     ELSE EmitTo(st, IF env.ae /\ ~IsSafe(v) THEN EscapeBy(env.esc, Show(v)) ELSE Show(v))
\* `set` lands in the innermost loop of this template if there is one, else in the render-wide assignments
Store(st, n, v, global) ==
  IF st.loops # <<>> /\ ~global THEN [st EXCEPT !.loops[Len(st.loops)].vars = (n :> v) @@ @]
  ELSE [st EXCEPT !.sets = (n :> v) @@ @]
ApplyCapFilter(f, chars) ==           \* a capture is Safe text; a filter builds a new string
  CASE f = "" -> StrV(chars, TRUE) [] f = "upper" -> StrV(Upper(chars), FALSE) [] f = "safe" -> StrV(chars, TRUE)
    [] f = "wrap" -> StrV(<<"<">> \o chars \o <<">">>, FALSE) [] f = "wrap_safe" -> StrV(<<"<">> \o chars \o <<">">>, TRUE)
    [] OTHER -> StrV(chars, TRUE)

\* matching separators (elif/else at depth 0) and end of the construct opened just before j
RECURSIVE ScanB(_, _, _, _)
ScanB(p, j, depth, seps) ==
  IF p[j].k \in Opens THEN ScanB(p, j + 1, depth + 1, seps)
  ELSE IF p[j].k = "end" THEN (IF depth = 0 THEN [seps |-> seps, end |-> j] ELSE ScanB(p, j + 1, depth - 1, seps))
  ELSE IF p[j].k \in {"elif", "else"} /\ depth = 0 THEN ScanB(p, j + 1, depth, Append(seps, j))
  ELSE ScanB(p, j + 1, depth, seps)

\* the elements a `for` visits: arrays in order, strings by character, maps entry by entry
Elems(v) == CASE v.k = "arr" -> [i \in 1..Len(v.xs) |-> [val |-> v.xs[i], key |-> Undef]]
              [] v.k = "str" -> [i \in 1..Len(v.s) |-> [val |-> StrV(<<v.s[i]>>, FALSE), key |-> Undef]]
              [] v.k = "map" -> [i \in 1..Len(v.ks) |-> [val |-> v.vs[i], key |-> StrV(<<v.ks[i]>>, FALSE)]]
              [] OTHER -> <<>>

RECURSIVE Exec(_, _, _, _, _)
RECURSIVE Iter(_, _, _, _, _, _, _, _)
RECURSIVE IfChain(_, _, _, _, _, _)
\* execute tokens i..j-1
Exec(p, i, j, st, env) ==
  IF i >= j \/ st.sig # "" THEN st
  ELSE LET t == p[i] IN
    CASE t.k = "text" -> Exec(p, i + 1, j, EmitTo(st, env.texts[t.n]), env)
      [] t.k = "print" -> LET v == Eval(t.e, st, env) IN
                          IF v.r # "ok" THEN Sig(st, v.r) ELSE Exec(p, i + 1, j, Write(st, env, v.v), env)
      [] t.k \in {"set", "setg"} -> LET v == Eval(t.e, st, env) IN
                          IF v.r # "ok" THEN Sig(st, v.r) ELSE Exec(p, i + 1, j, Store(st, t.n, v.v, t.k = "setg"), env)
      [] t.k \in {"break", "continue"} -> Sig(st, t.k)
      [] t.k = "if" -> LET m == ScanB(p, i + 1, 0, <<>>) IN Exec(p, m.end + 1, j, IfChain(p, i, m.seps, m.end, st, env), env)
      [] t.k \in {"for", "forkv"} ->
           LET m == ScanB(p, i + 1, 0, <<>>)
               bodyEnd == IF m.seps = <<>> THEN m.end ELSE m.seps[1]
               c == Eval(t.e, st, env) IN
           IF c.r # "ok" THEN Sig(st, c.r)
           ELSE IF c.v.k \notin {"arr", "str", "map"} \/ (t.k = "forkv" /\ c.v.k # "map") THEN Sig(st, "err")
           ELSE IF t.k = "for" /\ c.v.k = "map" /\ Len(c.v.ks) > 1 THEN Sig(st, "unspec")     \* entry order of maps is unspecified
           ELSE IF t.k = "forkv" /\ Len(c.v.ks) > 1 THEN Sig(st, "unspec")
           ELSE LET xs == Elems(c.v) IN
                IF xs = <<>> THEN (IF m.seps = <<>> THEN Exec(p, m.end + 1, j, st, env)
                                   ELSE Exec(p, m.end + 1, j, Exec(p, m.seps[1] + 1, m.end, st, env), env))
                ELSE Exec(p, m.end + 1, j, Iter(p, i + 1, bodyEnd, t, xs, 1, [st EXCEPT !.loops = Append(@, [vars |-> EmptyF, i |-> 0, len |-> Len(xs)])], env), env)
      [] t.k \in {"setblock", "setgblock"} -> LET m == ScanB(p, i + 1, 0, <<>>)
                                 s1 == Exec(p, i + 1, m.end, [st EXCEPT !.caps = Append(@, <<>>)], env) IN
                             IF s1.sig # "" THEN s1
                             ELSE LET txt == s1.caps[Len(s1.caps)]
                                      s2 == [s1 EXCEPT !.caps = SubSeq(@, 1, Len(@) - 1)] IN
                                  Exec(p, m.end + 1, j, Store(s2, t.n, ApplyCapFilter(t.m, txt), t.k = "setgblock"), env)
      [] t.k = "filter" -> LET m == ScanB(p, i + 1, 0, <<>>)
                               s1 == Exec(p, i + 1, m.end, [st EXCEPT !.caps = Append(@, <<>>)], env) IN
                           IF s1.sig # "" THEN s1
                           ELSE LET txt == s1.caps[Len(s1.caps)]
                                    s2 == [s1 EXCEPT !.caps = SubSeq(@, 1, Len(@) - 1)] IN
                                Exec(p, m.end + 1, j, Write(s2, env, ApplyCapFilter(t.n, txt)), env)
      [] t.k = "include" ->
           \* the included template runs in a fresh state chained read-only to the includer; its text goes to the
           \* includer's innermost capture (or the output); nothing it assigns survives
           LET q == env.lib[t.n]
               sub == Exec(q, 1, Len(q) + 1, St0(<<[loops |-> st.loops, sets |-> st.sets]>> \o st.up), env) IN
           IF sub.sig # "" THEN Sig(st, IF sub.sig \in {"err", "unspec"} THEN sub.sig ELSE "err")
           ELSE Exec(p, i + 1, j, EmitTo(st, sub.out), env)
      [] OTHER -> Sig(st, "unspec")
\* the first branch whose condition is truthy (an undefined variable may be tested: it is falsy)
IfChain(p, c, seps, end, st, env) ==
  LET cond == Eval(p[c].e, st, env)
      bodyEnd == IF seps = <<>> THEN end ELSE seps[1] IN
  IF p[c].k = "else" THEN Exec(p, c + 1, end, st, env)
  ELSE IF cond.r # "ok" THEN Sig(st, cond.r)
  ELSE IF Truthy(cond.v) THEN Exec(p, c + 1, bodyEnd, st, env)
  ELSE IF seps = <<>> THEN st
  ELSE IfChain(p, seps[1], Tail(seps), end, st, env)
\* one pass of the body per element; assignments made in the body vanish with the iteration
Iter(p, i, j, t, xs, k, st, env) ==
  LET top == Len(st.loops) IN
  IF k > Len(xs) THEN [st EXCEPT !.loops = SubSeq(@, 1, top - 1)]
  ELSE LET vars == IF t.k = "forkv" THEN (t.n :> xs[k].key) @@ (t.m :> xs[k].val) ELSE (t.n :> xs[k].val)
           st1 == [st EXCEPT !.loops[top] = [vars |-> vars, i |-> k - 1, len |-> Len(xs)]]
           st2 == Exec(p, i, j, st1, env) IN
       IF st2.sig \in {"err", "unspec"} THEN st2
       ELSE IF st2.sig = "break" THEN [st2 EXCEPT !.sig = "", !.loops = SubSeq(@, 1, top - 1)]
       ELSE Iter(p, i, j, t, xs, k + 1, [st2 EXCEPT !.sig = ""], env)

\* env: [ctx, gctx, ae, esc, lib, texts]
Run(prog, env) ==
  LET r == Exec(prog, 1, Len(prog) + 1, St0(<<>>), env) IN
  [r |-> IF r.sig = "" THEN "ok" ELSE IF r.sig = "unspec" THEN "unspec" ELSE "err", out |-> IF r.sig = "" THEN r.out ELSE <<>>]

\* ------------------------------------------------------------------ laws of the semantics itself (checked by TLC)
\* nothing but "", err, unspec leaves a complete program; captures are closed; loops are closed
WellEnded(prog, env) == LET r == Exec(prog, 1, Len(prog) + 1, St0(<<>>), env) IN
                        r.sig \in {"", "err", "unspec"} /\ (r.sig = "" => r.caps = <<>> /\ r.loops = <<>>)
=============================================================================
