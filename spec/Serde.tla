--------------------------------- MODULE Serde ---------------------------------
(***************************************************************************)
(* C19: data put in a context through serde is represented faithfully.     *)
(* Types and values of the serde data model as TLA+ terms; the documented  *)
(* mapping to template values decides what is refused, what must come back *)
(* unchanged, and what a template prints for scalars.                      *)
(*                                                                         *)
(* type  : [t |-> prim] | opt a | seq a | tuple ts | map k v | struct fs | newtype a | enum vs      *)
(* value : the same shapes as the harness protocol (k |-> "int", "some", "variant", ...);           *)
(*         integers are symbolic ("min" / "max" of their width), text is symbolic ("s1", "c1")      *)
(***************************************************************************)
EXTENDS Integers, Sequences, FiniteSets, TLC
Ints == {"i8", "i16", "i32", "i64", "i128", "u8", "u16", "u32", "u64", "u128"}
P(p) == [t |-> p]
Opt(a) == [t |-> "opt", a |-> a]
SeqT(a) == [t |-> "seq", a |-> a]
Tup(ts) == [t |-> "tuple", ts |-> ts]
MapT(k, v) == [t |-> "map", k |-> k, v |-> v]
StructT(name, fs) == [t |-> "struct", name |-> name, fs |-> fs]
NewT(a) == [t |-> "newtype", name |-> "N", a |-> a]
\* an enum with one variant of every shape, carrying payload type a
EnumT(a) == [t |-> "enum", name |-> "E", vs |-> << [n |-> "Unit", k |-> "unit"], [n |-> "New", k |-> "newtype", a |-> a],
                                                   [n |-> "Tup", k |-> "tuple", ts |-> <<a, P("bool")>>], [n |-> "St", k |-> "struct", fs |-> << <<"x", a>> >>] >>]
AllowedKey(k) == k.t \in Ints \cup {"str", "char", "bool"}

\* ---- sample values per type (first = the representative used inside containers)
RECURSIVE Vals(_)
First(ty) == Vals(ty)[1]
Second(ty) == IF Len(Vals(ty)) >= 2 THEN Vals(ty)[2] ELSE Vals(ty)[1]
IntV(w, v) == [k |-> "int", w |-> w, v |-> v]
Vals(ty) ==
  CASE ty.t = "bool" -> <<[k |-> "bool", v |-> TRUE], [k |-> "bool", v |-> FALSE]>>
    \* (signed widths also -1: two negative values, so that a map keyed by them has an order among negatives)
    [] ty.t \in Ints -> IF ty.t \in {"i8", "i16", "i32", "i64", "i128"} THEN <<IntV(ty.t, "max"), IntV(ty.t, "min"), IntV(ty.t, "m1")>>
                                                                       ELSE <<IntV(ty.t, "max"), IntV(ty.t, "min")>>
    [] ty.t = "f64" -> <<[k |-> "f64", v |-> "0.5"], [k |-> "f64", v |-> "-2.25"], [k |-> "f64", v |-> "1e19"], [k |-> "f64", v |-> "-0.0"], [k |-> "f64", v |-> "2.0"]>>
    [] ty.t = "f32" -> <<[k |-> "f32", v |-> "0.5"]>>
    [] ty.t = "char" -> <<[k |-> "char", v |-> "c1"], [k |-> "char", v |-> "c2"]>>
    \* (s2: 12 characters in 24 bytes -- strings are stored inline up to 21 BYTES)
    [] ty.t = "str" -> <<[k |-> "str", v |-> "s1"], [k |-> "str", v |-> "s0"], [k |-> "str", v |-> "s2"]>>
    [] ty.t = "unit" -> <<[k |-> "unit"]>>
    [] ty.t = "opt" -> <<[k |-> "some", v |-> First(ty.a)], [k |-> "none"]>>
    [] ty.t = "seq" -> <<[k |-> "seq", v |-> Vals(ty.a)], [k |-> "seq", v |-> <<>>]>>
    [] ty.t = "tuple" -> <<[k |-> "tuple", v |-> [i \in 1..Len(ty.ts) |-> First(ty.ts[i])]]>>
    \* (all key values; no entry; ONLY the last key value -- for floats a whole number: refused like any other float key)
    [] ty.t = "map" -> <<[k |-> "map", v |-> [i \in 1..Len(Vals(ty.k)) |-> <<Vals(ty.k)[i], First(ty.v)>>]], [k |-> "map", v |-> <<>>],
                         [k |-> "map", v |-> << <<Vals(ty.k)[Len(Vals(ty.k))], First(ty.v)>> >>]>>
    \* (a struct with the first value of every field, and one with the second: an absent option, an empty sequence ...)
    [] ty.t = "struct" -> <<[k |-> "struct", name |-> ty.name, v |-> [i \in 1..Len(ty.fs) |-> <<ty.fs[i][1], First(ty.fs[i][2])>>]],
                            [k |-> "struct", name |-> ty.name, v |-> [i \in 1..Len(ty.fs) |-> <<ty.fs[i][1], Second(ty.fs[i][2])>>]]>>
    [] ty.t = "newtype" -> <<[k |-> "newtype", name |-> ty.name, v |-> First(ty.a)]>>
    [] ty.t = "enum" ->
         [i \in 1..Len(ty.vs) |->
            LET vr == ty.vs[i] IN
            [k |-> "variant", name |-> ty.name, idx |-> i - 1, vn |-> vr.n, vk |-> vr.k,
             items |-> IF vr.k = "newtype" THEN <<First(vr.a)>> ELSE IF vr.k = "tuple" THEN [j \in 1..Len(vr.ts) |-> First(vr.ts[j])] ELSE <<>>,
             fields |-> IF vr.k = "struct" THEN [j \in 1..Len(vr.fs) |-> <<vr.fs[j][1], First(vr.fs[j][2])>>] ELSE <<>>]]

\* ---- a value that cannot be represented: a map ENTRY whose key is not a string, char, integer or bool
RECURSIVE Refused(_, _)
Refused(ty, v) ==
  CASE ty.t = "opt" -> v.k = "some" /\ Refused(ty.a, v.v)
    [] ty.t = "seq" -> \E i \in 1..Len(v.v) : Refused(ty.a, v.v[i])
    [] ty.t = "tuple" -> \E i \in 1..Len(v.v) : Refused(ty.ts[i], v.v[i])
    [] ty.t = "map" -> \E i \in 1..Len(v.v) : ~AllowedKey(ty.k) \/ Refused(ty.v, v.v[i][2])
    [] ty.t = "struct" -> \E i \in 1..Len(v.v) : Refused(ty.fs[i][2], v.v[i][2])
    [] ty.t = "newtype" -> Refused(ty.a, v.v)
    [] ty.t = "enum" -> LET vr == ty.vs[v.idx + 1] IN
                        \/ (vr.k = "newtype" /\ Refused(vr.a, v.items[1]))
                        \/ (vr.k = "tuple" /\ \E i \in 1..Len(v.items) : Refused(vr.ts[i], v.items[i]))
                        \/ (vr.k = "struct" /\ \E i \in 1..Len(v.fields) : Refused(vr.fs[i][2], v.fields[i][2]))
    [] OTHER -> FALSE
\* ---- the round trip is demanded except where the mapping is not injective by design:
\* an option directly inside an option, and an option of unit (Some(()) and None are both none)
RECURSIVE Lossy(_)
Lossy(ty) ==
  CASE ty.t = "opt" -> ty.a.t \in {"opt", "unit"} \/ (ty.a.t = "newtype" /\ ty.a.a.t \in {"opt", "unit"}) \/ Lossy(ty.a)
    [] ty.t \in {"seq", "newtype"} -> Lossy(ty.a)
    [] ty.t = "tuple" -> \E i \in 1..Len(ty.ts) : Lossy(ty.ts[i])
    [] ty.t = "map" -> Lossy(ty.v)
    [] ty.t = "struct" -> \E i \in 1..Len(ty.fs) : Lossy(ty.fs[i][2])
    [] ty.t = "enum" -> \E i \in 1..Len(ty.vs) : LET vr == ty.vs[i] IN
                           (vr.k = "newtype" /\ Lossy(vr.a)) \/ (vr.k = "tuple" /\ \E j \in 1..Len(vr.ts) : Lossy(vr.ts[j]))
                           \/ (vr.k = "struct" /\ \E j \in 1..Len(vr.fs) : Lossy(vr.fs[j][2]))
    [] OTHER -> FALSE
\* ---- what a template prints for scalars: "digits:<w>:<v>", "text:<sym>", "lit:<text>", "" ; "?" = not a scalar
RECURSIVE Shown(_, _)
Shown(ty, v) ==
  CASE ty.t = "bool" -> IF v.v THEN "lit:true" ELSE "lit:false"
    [] ty.t \in Ints -> "digits:" \o ty.t \o ":" \o v.v
    [] ty.t \in {"char", "str"} -> "text:" \o v.v
    [] ty.t = "unit" -> "lit:"
    [] ty.t = "opt" -> IF v.k = "none" THEN "lit:" ELSE Shown(ty.a, v.v)
    [] ty.t = "newtype" -> Shown(ty.a, v.v)
    [] ty.t = "enum" -> IF v.vk = "unit" THEN "lit:" \o v.vn ELSE "?"
    [] OTHER -> "?"
=============================================================================
