---------------------------------- MODULE Sigs ----------------------------------
(***************************************************************************)
(* C17: the signature table of the built-in filters, tests and functions   *)
(* (receiver kinds accepted; keyword arguments with kind and required /    *)
(* optional), transcribed from the documentation, and the cell-wise oracle *)
(* "value or error, never a panic; missing or mistyped arguments are       *)
(* reported as such".  Also: `default`, `range`, the type-test partition.  *)
(***************************************************************************)
EXTENDS Integers, Sequences, FiniteSets, TLC
RecvKinds == {"str", "int", "float", "bool", "none", "undef", "arr", "map", "bytes"}
A(n, k, req) == [n |-> n, k |-> k, req |-> req]          \* argument: name, kind ("str" | "nat" | "int" | "bool" | "any"), required?
F(name, recv, args) == [name |-> name, recv |-> recv, args |-> args]
AnyK == RecvKinds
Num == {"int", "float"}
Filters == <<
  F("safe", AnyK \ {"undef"}, <<>>), F("default", AnyK, <<A("value", "any", TRUE), A("boolean", "bool", FALSE)>>),
  F("upper", {"str"}, <<>>), F("lower", {"str"}, <<>>), F("wordcount", {"str"}, <<>>), F("capitalize", {"str"}, <<>>), F("title", {"str"}, <<>>),
  F("escape_html", {"str"}, <<>>), F("escape_xml", {"str"}, <<>>), F("newlines_to_br", {"str"}, <<>>),
  F("replace", {"str"}, <<A("from", "str", TRUE), A("to", "str", TRUE)>>),
  F("trim", {"str"}, <<A("pat", "str", FALSE)>>), F("trim_start", {"str"}, <<A("pat", "str", FALSE)>>), F("trim_end", {"str"}, <<A("pat", "str", FALSE)>>),
  F("truncate", {"str"}, <<A("length", "nat", TRUE), A("end", "str", FALSE)>>),
  F("indent", {"str"}, <<A("width", "nat", FALSE), A("first", "bool", FALSE), A("blank", "bool", FALSE)>>),
  F("split", {"str"}, <<A("pat", "str", TRUE)>>),
  F("int", {"str", "int", "float"}, <<A("base", "nat", FALSE)>>), F("float", {"str", "int", "float"}, <<>>),
  F("abs", Num, <<>>), F("round", Num, <<A("method", "str", FALSE), A("precision", "int", FALSE)>>),
  F("pluralize", {"int"}, <<A("singular", "str", FALSE), A("plural", "str", FALSE)>>),
  F("length", {"str", "arr", "map"}, <<>>), F("reverse", {"str", "arr"}, <<>>),
  F("first", {"arr"}, <<>>), F("last", {"arr"}, <<>>), F("nth", {"arr"}, <<A("n", "nat", TRUE)>>), F("join", {"arr"}, <<A("sep", "str", FALSE)>>),
  F("sort", {"arr"}, <<A("attribute", "str", FALSE)>>), F("unique", {"arr"}, <<>>), F("group_by", {"arr"}, <<A("attribute", "str", TRUE)>>),
  F("keys", {"map"}, <<>>), F("values", {"map"}, <<>>), F("pairs", {"map"}, <<>>), F("get", {"map"}, <<A("key", "str", TRUE), A("default", "any", FALSE)>>),
  F("str", AnyK \ {"undef"}, <<>>) >>
Tests == <<
  F("defined", AnyK, <<>>), F("undefined", AnyK, <<>>), F("string", AnyK, <<>>), F("number", AnyK, <<>>), F("integer", AnyK, <<>>), F("float", AnyK, <<>>),
  F("map", AnyK, <<>>), F("array", AnyK, <<>>), F("bool", AnyK, <<>>), F("none", AnyK, <<>>), F("iterable", AnyK, <<>>),
  F("odd", {"int"}, <<>>), F("even", {"int"}, <<>>), F("divisible_by", {"int"}, <<A("divisor", "int", TRUE)>>),
  F("starting_with", {"str"}, <<A("pat", "str", TRUE)>>), F("ending_with", {"str"}, <<A("pat", "str", TRUE)>>),
  F("containing", {"str", "arr", "map"}, <<A("pat", "any", TRUE)>>) >>
Functions == << F("range", {}, <<A("end", "int", TRUE), A("start", "int", FALSE), A("step_by", "int", FALSE)>>), F("throw", {}, <<A("message", "str", TRUE)>>) >>
\* receivers that are clearly outside a filter's class (the documentation is silent on bytes / undefined receivers and on
\* coercions between scalars, so only the clear-cut cells demand an error)
ClearlyWrong(f) == CASE f.recv = {"str"} -> {"arr", "map", "none"} [] f.recv \subseteq {"arr", "map"} -> {"int", "float", "bool", "none"} \cup (IF "str" \in f.recv THEN {} ELSE {})
                     [] f.recv \subseteq Num \/ f.recv = {"str", "int", "float"} -> {"arr", "map", "none"}
                     [] OTHER -> {}
\* "none": the argument is passed and its value is none -- a value like any other: fine for an `any` argument, mistyped otherwise
\* (never "not passed").  "edge": an integer at or beyond the range of the argument's machine type: no-panic only
ArgStates == {"absent", "right", "wrong", "none", "edge"}
\* the cell oracle: "ok" | "err-missing" | "err-type" | "err" | "any" (no-panic only)
Cell(f, recv, st) ==      \* st: sequence of ArgStates, one per argument
  LET missing == \E i \in 1..Len(f.args) : f.args[i].req /\ st[i] = "absent"
      wrong == \E i \in 1..Len(f.args) : st[i] \in {"wrong", "none"} /\ f.args[i].k # "any"
      edge == \E i \in 1..Len(f.args) : st[i] = "edge" IN
  IF edge THEN "any"
  ELSE IF f.name = "containing" /\ recv = "str" /\ (\E i \in 1..Len(st) : st[i] = "none") THEN "any"     \* a pattern for a string is a string
  ELSE
  IF recv \in f.recv \/ f.recv = {} THEN
     (IF missing /\ ~wrong THEN "err-missing" ELSE IF wrong /\ ~missing THEN "err-type" ELSE IF missing /\ wrong THEN "err" ELSE
      IF f.name \in {"throw"} THEN "err" ELSE IF f.name \in {"int", "float", "sort", "group_by", "get", "round", "nth"} THEN "any" ELSE "ok")
  ELSE IF recv \in ClearlyWrong(f) THEN "err" ELSE "any"

\* ---- `default`: replaces only undefined, or anything falsy when boolean is set
Default(isUndef, truthy, boolean) == IF boolean THEN ~truthy ELSE isUndef           \* TRUE = the default value is taken
\* ---- `range`: exactly the arithmetic progression start, start+step, ... before end
RECURSIVE RangeR(_, _, _, _)
RangeR(x, end, step, fuel) == IF fuel = 0 \/ (step > 0 /\ x >= end) \/ (step < 0 /\ x <= end) THEN <<>> ELSE <<x>> \o RangeR(x + step, end, step, fuel - 1)
Range(start, end, step) == IF step = 0 THEN [r |-> "err", s |-> <<>>]
                           ELSE IF step > 0 /\ start > end THEN [r |-> "any", s |-> <<>>]       \* empty, or refused: not demanded
                           ELSE [r |-> "ok", s |-> RangeR(start, end, step, 50)]
\* ---- `odd` / `even` / `divisible_by` on integers (negative ones included): mathematical parity and divisibility
Odd(n) == n % 2 = 1
Divisible(n, d) == n % (IF d < 0 THEN -d ELSE d) = 0
\* the same at the ends of the integer ranges: x = (-1)^neg (2^k - m1) with k >= 1; divisors +-1, +-2
Extremes == << [k |-> 127, m1 |-> 0, neg |-> TRUE], [k |-> 127, m1 |-> 1, neg |-> FALSE], [k |-> 127, m1 |-> 1, neg |-> TRUE],
               [k |-> 63, m1 |-> 0, neg |-> TRUE], [k |-> 63, m1 |-> 1, neg |-> FALSE], [k |-> 64, m1 |-> 1, neg |-> FALSE] >>
OddX(x) == x.m1 = 1
DivisibleX(x, d) == d \in {-1, 1} \/ ~OddX(x)
\* ---- type tests partition values
TypeTests(kind) == [defined |-> kind # "undef", undefined |-> kind = "undef", string |-> kind = "str", number |-> kind \in Num,
                    integer |-> kind = "int", float |-> kind = "float", map |-> kind = "map", array |-> kind = "arr", bool |-> kind = "bool",
                    none |-> kind = "none", iterable |-> kind \in {"arr", "map", "str"}]
PartitionLaws(t) == /\ (t.number <=> (t.integer \/ t.float)) /\ ~(t.integer /\ t.float) /\ (t.defined <=> ~t.undefined)
                    /\ Cardinality({x \in {"string", "number", "map", "array", "bool", "none", "undefined"} : t[x]}) <= 1
=============================================================================
