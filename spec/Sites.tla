--------------------------------- MODULE Sites ---------------------------------
(***************************************************************************)
(* Operand sites (C07, C12, C17): what PRODUCES an operand x what CONSUMES *)
(* it.  A consumer fails exactly when the kind of its operand is not one   *)
(* it accepts -- with an error value that has a span, whatever produced    *)
(* the operand (a literal, a name, the result of `not`, of a test, of a    *)
(* filter, of a subscript, of a call, a literal collection, ...).          *)
(***************************************************************************)
EXTENDS Sequences
ProdKind == [plit |-> "int", pstr |-> "str", pvar |-> "map", pnot |-> "bool", pisdef |-> "bool", pisnot |-> "bool", pin |-> "bool", pnotin |-> "bool",
             peq |-> "bool", plt |-> "bool", pand |-> "bool", psub |-> "int", pattr |-> "int", pidx |-> "int", padd |-> "int", pcat |-> "str",
             pfilt |-> "str", pcall |-> "arr", parr |-> "arr", ptern |-> "int", pcomp |-> "arr", pslice |-> "arr", ptrue |-> "bool", pneg |-> "int",
             plen |-> "int", pmaplit |-> "map", psubstr |-> "str", pcomponent |-> "str",
             \* the kinds no consumer of this table takes, or only one does: none, undefined (through ?.), a float, bytes
             pnone |-> "none", pundefopt |-> "undef", pfloat |-> "float", pbytes |-> "bytes"]
ConsAccepts == [cadd |-> {"int", "float"}, cneg |-> {"int", "float"}, cupper |-> {"str"}, cabs |-> {"int", "float"}, cfor |-> {"str", "arr", "map", "bytes"},
                clt |-> {"int", "float"},
                cspreadm |-> {"map"}, cspreada |-> {"arr"}, creplace |-> {"str"}, cdiv0 |-> {}, crange |-> {"int"}, cisdiv |-> {"int"},
                \* the operand as the argument of a component whose parameter is declared `integer`: an inline call and a call with a body
                ccomp |-> {"int"}, ccompbody |-> {"int"}]
Fails(pn, cn) == ProdKind[pn] \notin ConsAccepts[cn]
=============================================================================
