--------------------------------- MODULE Spans ---------------------------------
(***************************************************************************)
(* C12: errors identify the right template and source position.            *)
(* An observation o of one error:                                          *)
(*   file, host        reported template name / template holding the fault *)
(*   len               byte length of the host source                      *)
(*   bounds            the character-boundary byte offsets of the source   *)
(*   nls               the byte offsets of its newlines                    *)
(*   s, e              the span's byte range; sl, sc, el, ec line/columns  *)
(*   fs, fe            the byte range of the planted fault                 *)
(*   syntax            a syntax fault (the error may sit anywhere from the *)
(*                     fault to the end of the source)                     *)
(*   shown             line numbers of the host quoted in the Display text *)
(*   blank             line numbers of the host that are blank             *)
(*   units             byte ranges of the sub-expressions of the fault     *)
(*   notes             <<[file, ok (consistent in its own template), covers (the call site)]>>; wantnotes: call sites *)
(***************************************************************************)
EXTENDS Integers, Sequences, FiniteSets, TLC
Member(x, seq) == \E i \in 1..Len(seq) : seq[i] = x
CountLess(seq, x) == Cardinality({i \in 1..Len(seq) : seq[i] < x})
\* 1-based line of byte offset p; 0-based column in characters
LineOf(o, p) == 1 + CountLess(o.nls, p)
LineStart(o, p) == LET before == {o.nls[i] : i \in {j \in 1..Len(o.nls) : o.nls[j] < p}} IN
                   IF before = {} THEN 0 ELSE 1 + (CHOOSE m \in before : \A q \in before : q <= m)
ColOf(o, p) == Cardinality({i \in 1..Len(o.bounds) : o.bounds[i] >= LineStart(o, p) /\ o.bounds[i] < p})
\* the span lies within the source on character boundaries and its line/column designate the same positions
Consistent(o) ==
  /\ 0 <= o.s /\ o.s <= o.e /\ o.e <= o.len
  /\ Member(o.s, o.bounds) /\ Member(o.e, o.bounds)
  /\ o.sl = LineOf(o, o.s) /\ o.sc = ColOf(o, o.s)
  /\ o.el = LineOf(o, o.e) /\ o.ec = ColOf(o, o.e)
\* it covers the offending token or expression
Localises(o) == IF o.syntax THEN o.s >= o.fs /\ o.s <= o.len
                ELSE /\ (o.s < o.fe /\ o.e > o.fs) \/ (o.s = o.e /\ o.fs <= o.s /\ o.s <= o.fe)
                     \* where the planting names the offending token itself (xs..xe, e.g. the missing field of a path, the name
                     \* of an undefined variable), the span has to touch THAT token, not just the expression around it
                     /\ (o.xs < o.xe => (o.s < o.xe /\ o.e > o.xs))
\* a span designates an expression: it never cuts a token or a bracketed group in two.  units = byte ranges <<us, ue>> of
\* the tokens (names, numbers, strings) and of the {..} groups of the offending expression; each is either inside
\* the span, around it, or apart from it
Uncut(o) == \A k \in 1..Len(o.units) :
              LET us == o.units[k][1] ue == o.units[k][2] IN
              \/ o.e <= us \/ ue <= o.s                  \* apart
              \/ (o.s <= us /\ ue <= o.e)                \* the span holds the unit
              \/ (us <= o.s /\ o.e <= ue)                \* the unit holds the span
RightTemplate(o) == o.file = o.host
\* the report quotes the line the span starts on
Quoted(o) == o.dispok /\ (Member(o.sl, o.blank) \/ Member(o.sl, o.shown))
\* one note per enclosing include / component call site, each consistent with ITS template and covering the call
Notes(o) == Len(o.notes) = Len(o.wantnotes)
            /\ \A i \in 1..Len(o.notes) : o.notes[i].file = o.wantnotes[i] /\ o.notes[i].ok /\ o.notes[i].covers
=============================================================================
