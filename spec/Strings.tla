-------------------------------- MODULE Strings --------------------------------
(***************************************************************************)
(* C17: reference semantics of the string filters, written from the        *)
(* documentation.  A string is a sequence of CHARACTER TOKENS:             *)
(*   "a" "A"  ASCII letters          "e1" "E1"  é / É (2-byte letters)     *)
(*   "sp" " "   "nl" "\n"   "crlf" "\r\n" (a unit)   "dot" "."  "lt" "<"  "q" "'" *)
(* Results are sequences of tokens too (a result token that is not one of  *)
(* the names above stands for itself, e.g. "&lt;" or "<br>").              *)
(* Where the documentation is silent the result is "unspec".               *)
(***************************************************************************)
EXTENDS Integers, Sequences, FiniteSets, TLC
Alphabet == {"a", "A", "e1", "E1", "sp", "nl", "crlf", "dot", "lt", "q"}
White == {"sp", "nl", "crlf"}
Punct == {"dot", "lt", "q"}
Up(c) == CASE c = "a" -> "A" [] c = "e1" -> "E1" [] OTHER -> c
Lo(c) == CASE c = "A" -> "a" [] c = "E1" -> "e1" [] OTHER -> c
Ok(s) == [r |-> "ok", s |-> s]
Unspec == [r |-> "unspec", s |-> <<>>]
Map(F(_), s) == [i \in 1..Len(s) |-> F(s[i])]
Has(s, set) == \E i \in 1..Len(s) : s[i] \in set
Upper(s) == Ok(Map(Up, s))
Lower(s) == Ok(Map(Lo, s))
\* all characters lowercased apart from the first, which is uppercased
Capitalize(s) == IF s = <<>> THEN Ok(s) ELSE Ok(<<Up(s[1])>> \o Map(Lo, Tail(s)))
\* each word (run of non-whitespace) capitalised; punctuation inside words is not covered by the documentation
RECURSIVE TitleR(_, _)
TitleR(s, start) == IF s = <<>> THEN <<>> ELSE IF Head(s) \in White THEN <<Head(s)>> \o TitleR(Tail(s), TRUE)
                    ELSE <<IF start THEN Up(Head(s)) ELSE Lo(Head(s))>> \o TitleR(Tail(s), FALSE)
Title(s) == IF Has(s, Punct) THEN Unspec ELSE Ok(TitleR(s, TRUE))
RECURSIVE DropWhileIn(_, _)
DropWhileIn(s, set) == IF s # <<>> /\ Head(s) \in set THEN DropWhileIn(Tail(s), set) ELSE s
RECURSIVE Rev(_)
Rev(s) == IF s = <<>> THEN <<>> ELSE Rev(Tail(s)) \o <<Head(s)>>
TrimStart(s) == Ok(DropWhileIn(s, White))
TrimEnd(s) == Ok(Rev(DropWhileIn(Rev(s), White)))
Trim(s) == Ok(Rev(DropWhileIn(Rev(DropWhileIn(s, White)), White)))
\* trimming by a one-character pattern removes every repetition of it at the end(s) concerned
TrimPat(s, p) == Ok(Rev(DropWhileIn(Rev(DropWhileIn(s, {p})), {p})))
TrimStartPat(s, p) == Ok(DropWhileIn(s, {p}))
TrimEndPat(s, p) == Ok(Rev(DropWhileIn(Rev(s), {p})))
\* at most n characters, then the end marker iff something was cut ("crlf" is two characters: not counted here)
Truncate(s, n, marker) == IF Has(s, {"crlf"}) THEN Unspec ELSE IF Len(s) <= n THEN Ok(s) ELSE Ok(SubSeq(s, 1, n) \o <<marker>>)
\* every instance of a one-character `from` replaced
Replace(s, from, to) == IF from = "nl" /\ Has(s, {"crlf"}) THEN Unspec        \* the unit token "crlf" contains a "\n"
                        ELSE Ok([i \in 1..Len(s) |-> IF s[i] = from THEN to ELSE s[i]])
RECURSIVE Flat(_)
Flat(ss) == IF ss = <<>> THEN <<>> ELSE Head(ss) \o Flat(Tail(ss))
NewlinesToBr(s) == Ok([i \in 1..Len(s) |-> IF s[i] \in {"nl", "crlf"} THEN "<br>" ELSE s[i]])
EscHtml(c) == CASE c = "lt" -> "&lt;" [] OTHER -> c
EscapeHtml(s) == IF Has(s, {"q"}) THEN Unspec ELSE Ok(Map(EscHtml, s))           \* documentation: &#x27; — the engine's escaper: &#39;
EscXml(c) == CASE c = "lt" -> "&lt;" [] c = "q" -> "&apos;" [] OTHER -> c
EscapeXml(s) == Ok(Map(EscXml, s))
\* number of maximal runs of non-whitespace
RECURSIVE Words(_, _)
Words(s, inword) == IF s = <<>> THEN 0 ELSE IF Head(s) \in White THEN Words(Tail(s), FALSE)
                    ELSE (IF inword THEN 0 ELSE 1) + Words(Tail(s), TRUE)
WordCount(s) == Words(s, FALSE)
\* indent: a prefix of `width` spaces at the start of each line; not the first line unless first; not empty lines unless blank
\* (lines end with nl or crlf, which are kept as they are; whitespace-only lines: documentation and engine differ -> unspec)
RECURSIVE IndentR(_, _, _, _, _)
IndentR(s, atStart, isFirst, first, blank) ==
  IF s = <<>> THEN <<>>
  ELSE LET c == Head(s)
           eol == c \in {"nl", "crlf"}
           pre == IF atStart /\ (~isFirst \/ first) /\ (~eol \/ blank) THEN <<"INDENT">> ELSE <<>> IN
       pre \o <<c>> \o IndentR(Tail(s), eol, isFirst /\ ~eol, first, blank)
\* (an EMPTY first line with first = TRUE and blank = FALSE: the two rules of the documentation collide -> unspec)
Indent(s, first, blank) == IF Has(s, {"sp"}) \/ (s # <<>> /\ Head(s) \in {"nl", "crlf"} /\ first /\ ~blank) THEN Unspec
                           ELSE Ok(IndentR(s, TRUE, TRUE, first, blank))
\* split on a one-character pattern: the pieces between occurrences (n occurrences -> n + 1 pieces)
RECURSIVE SplitR(_, _, _)
SplitR(s, p, cur) == IF s = <<>> THEN <<cur>> ELSE IF Head(s) = p THEN <<cur>> \o SplitR(Tail(s), p, <<>>) ELSE SplitR(Tail(s), p, Append(cur, Head(s)))
Split(s, p) == SplitR(s, p, <<>>)
=============================================================================
