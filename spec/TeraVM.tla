------------------------------- MODULE TeraVM -------------------------------
(***************************************************************************)
(* The bytecode VM of Tera (tera/src/vm/interpreter.rs) as a transition    *)
(* relation over ONE frame executing ONE chunk.  Calls into other chunks   *)
(* (blocks, super(), components, includes) are opaque steps: the callee is *)
(* a frame of its own that starts from an empty value stack, which is      *)
(* exactly the obligation "a frame leaves the stacks as it found them".    *)
(*                                                                         *)
(* Values are abstract: kind, truthiness, safe mark.  Every stack entry    *)
(* also carries the span-index range the engine attaches to it, because    *)
(* building an error needs a span at both ends of the range (otherwise     *)
(* `expect("to have a span for error")` panics).                           *)
(*                                                                         *)
(* The relation is given as Succ(code, f): the SET of successor frames, so *)
(* the same definition serves                                              *)
(*   - MC_TeraVM   : TLC explores all executions of real dumped listings   *)
(*                   under all abstract contexts (deadlock = a pop/peek on *)
(*                   a missing operand = an expect() panic);               *)
(*   - Trace_TeraVM: every recorded step of the real engine must be a      *)
(*                   member of Succ (trace validation).                    *)
(* An instruction whose operand precondition is unmet has NO successor.    *)
(***************************************************************************)
EXTENDS Integers, Sequences, FiniteSets, TLC

\* ---------------------------------------------------------------- values
\* "lit" is an integer literal of the template (always fits i64); "int" any integer incl. u128 > i128::MAX
Kinds == {"undef", "none", "bool", "int", "lit", "float", "str", "arr", "map", "bytes"}
NumK == {"int", "lit", "float"}
V(k, t, s) == [k |-> k, t |-> t, s |-> s]
\* the safe mark is only meaningful on strings; Value::is_safe() is TRUE for the scalar kinds
AV == {V("undef", FALSE, TRUE), V("none", FALSE, TRUE)}
      \cup {V(k, t, TRUE) : k \in {"bool", "int", "float"}, t \in BOOLEAN}
      \cup {V("str", t, s) : t \in BOOLEAN, s \in BOOLEAN}
      \cup {V(k, t, FALSE) : k \in {"arr", "map", "bytes"}, t \in BOOLEAN}
Bools == {V("bool", t, TRUE) : t \in BOOLEAN}
Nums == {V(k, t, TRUE) : k \in {"int", "float"}, t \in BOOLEAN}
SafeStrs == {V("str", t, TRUE) : t \in BOOLEAN}
NormStrs == {V("str", t, FALSE) : t \in BOOLEAN}
Iterable == {"str", "arr", "map", "bytes"}
\* how many elements an iterable can have, by abstract class (0, 1, or "2 or more" = 2)
Rem(v) == IF ~v.t THEN {0} ELSE {1, 2}

ConstDom(c) ==
  CASE c = "none" -> {V("none", FALSE, TRUE)}
    [] c = "undef" -> {V("undef", FALSE, TRUE)}
    [] c = "strN" -> {V("str", TRUE, FALSE)}
    [] c = "strE" -> {V("str", FALSE, FALSE)}
    [] c = "arr" -> {V("arr", TRUE, FALSE)}
    [] c = "arr0" -> {V("arr", FALSE, FALSE)}
    [] c = "map" -> {V("map", TRUE, FALSE)}
    [] c = "map0" -> {V("map", FALSE, FALSE)}
    [] c = "boolT" -> {V("bool", TRUE, TRUE)}
    [] c = "boolF" -> {V("bool", FALSE, TRUE)}
    [] c = "intT" -> {V("lit", TRUE, TRUE)}
    [] c = "intF" -> {V("lit", FALSE, TRUE)}
    [] c = "floatT" -> {V("float", TRUE, TRUE)}
    [] c = "floatF" -> {V("float", FALSE, TRUE)}
    [] OTHER -> {}

Min(a, b) == IF a < b THEN a ELSE b
Max(a, b) == IF a > b THEN a ELSE b

\* ---------------------------------------------------------------- frames
\* st: "run" | "done" | "err" (an error value was produced) | "nospan" (the engine would panic
\*     building the error: a span is missing) ; loops: <<[rem, endip, it]>> ; pd: open captures
Frame0 == [ip |-> 1, stack |-> <<>>, loops |-> <<>>, pd |-> 0, st |-> "run", why |-> ""]

MathOps == {"Mul", "Div", "FloorDiv", "Mod", "Minus", "Power"}
CmpOps == {"LessThan", "GreaterThan", "LessThanOrEqual", "GreaterThanOrEqual"}
CallOps == {"RenderBlock", "CallFunction", "RenderInlineComponent", "RenderBodyComponent", "Include"}
WriteOps == {"WriteText", "WriteTop", "WritePath"}

\* distances from the top of the stack of the spread operands of Build*WithSpreads
RECURSIVE MapSpreadOff(_, _, _)
MapSpreadOff(sp, i, o) == IF i = 0 THEN {} ELSE IF sp[i] THEN {o} \cup MapSpreadOff(sp, i - 1, o + 1)
                          ELSE MapSpreadOff(sp, i - 1, o + 2)
RECURSIVE ListSpreadOff(_, _, _)
ListSpreadOff(sp, i, o) == IF i = 0 THEN {} ELSE (IF sp[i] THEN {o} ELSE {}) \cup ListSpreadOff(sp, i - 1, o + 1)

Succ(code, f) ==
  IF f.st # "run" \/ f.ip < 1 \/ f.ip > Len(code) THEN {}
  ELSE
  LET ins == code[f.ip]
      op == ins.op
      ip == f.ip
      stack == f.stack
      D == Len(stack)
      S(k) == stack[D - k]                       \* k = 0 is the top of the stack
      PopN(k) == SubSeq(stack, 1, D - k)
      HasSpan(i) == i >= 1 /\ i <= Len(code) /\ code[i].s > 0
      Go(stk, nip) == [f EXCEPT !.stack = stk, !.ip = nip]
      E(v, lo, hi) == [v |-> v, lo |-> lo, hi |-> hi]
      Push(base, lo, hi, dom) == {Go(Append(base, E(v, lo, hi)), ip + 1) : v \in dom}
      \* rendering_error! with a span range: needs a span on both end instructions
      Err(lo, hi) == {[f EXCEPT !.st = IF HasSpan(lo) /\ HasSpan(hi) THEN "err" ELSE "nospan", !.why = op]}
      \* an error that needs no span of this chunk (io error, utf8 error, error of a callee, message error)
      ErrAny == {[f EXCEPT !.st = "err", !.why = op]}
      \* fused instructions index their own span list, one span per path element
      PathErr == IF ins.s >= ins.n THEN ErrAny ELSE {[f EXCEPT !.st = "nospan", !.why = op]}
      CLo(a, b) == Min(a.lo, b.lo)
      CHi(a, b) == Max(a.hi, b.hi)
      Loop == f.loops[Len(f.loops)]
  IN
  CASE op = "LoadConst" -> Push(stack, ip, ip, ConstDom(ins.c))
    [] op = "LoadName" -> Push(stack, ip, ip, AV)
    [] op = "LoadPath" -> Push(stack, ip, ip, AV) \cup PathErr
    [] op = "WritePath" -> {Go(stack, ip + 1)} \cup PathErr
    [] op \in {"LoadAttr", "LoadAttrOpt"} ->
         IF D < 1 THEN {}
         ELSE IF op = "LoadAttrOpt" /\ S(0).v.k \in {"undef", "none"}
           THEN Push(PopN(1), ip, ip, {V("undef", FALSE, TRUE)})
         ELSE IF S(0).v.k = "undef" THEN Err(S(0).lo, S(0).hi)
         ELSE Push(PopN(1), ip, ip, AV)
    [] op \in {"BinarySubscript", "BinarySubscriptOpt"} ->
         IF D < 2 THEN {}
         ELSE IF op = "BinarySubscriptOpt" /\ S(1).v.k \in {"undef", "none"}
           THEN Push(PopN(2), ip, ip, {V("undef", FALSE, TRUE)})
         ELSE IF S(1).v.k = "undef" THEN Err(S(1).lo, S(1).hi)
         ELSE IF S(0).v.k = "undef" THEN Err(S(0).lo, S(0).hi)
         ELSE Push(PopN(2), CLo(S(1), S(0)), CHi(S(1), S(0)), AV) \cup Err(S(0).lo, S(0).hi)
    [] op \in {"Slice", "SliceOpt"} ->
         IF D < 4 THEN {}
         ELSE IF op = "SliceOpt" /\ S(3).v.k \in {"undef", "none"}
           THEN Push(PopN(4), ip, ip, {V("undef", FALSE, TRUE)})
         ELSE IF S(3).v.k = "undef" THEN Err(S(3).lo, S(3).hi)
         ELSE LET bounds == {S(2), S(1), S(0)}
                  okAll == \A b \in bounds : b.v.k \in {"none", "lit", "int"} IN
              \* none and literals never fail; an integer may not fit i128; anything else fails
              UNION {Err(b.lo, b.hi) : b \in {x \in bounds : x.v.k \notin {"none", "lit"}}}
              \cup (IF okAll THEN Push(PopN(4), S(3).lo, S(3).hi, AV) \cup Err(S(3).lo, S(3).hi) ELSE {})
    [] op = "WriteText" -> {Go(stack, ip + 1)} \cup ErrAny
    [] op = "WriteTop" ->
         IF D < 1 THEN {}
         ELSE IF S(0).v.k = "undef" THEN Err(S(0).lo, S(0).hi)
         ELSE {Go(PopN(1), ip + 1)} \cup ErrAny
    [] op \in {"Set", "SetGlobal"} -> IF D < 1 THEN {} ELSE {Go(PopN(1), ip + 1)}
    [] op \in {"Include", "RenderBlock"} -> {Go(stack, ip + 1)} \cup ErrAny
    [] op = "BuildMap" ->
         IF D < ins.n THEN {}
         ELSE {Go(Append(PopN(ins.n), E(V("map", ins.n > 0, FALSE), ip, ip)), ip + 1)}
              \cup (IF ins.n > 0 THEN ErrAny ELSE {})
    [] op = "BuildMapWithSpreads" ->
         IF D < ins.n THEN {}
         ELSE Push(PopN(ins.n), ip, ip, {V("map", t, FALSE) : t \in BOOLEAN})
              \cup UNION {Err(S(k).lo, S(k).hi) : k \in {o \in MapSpreadOff(ins.sp, Len(ins.sp), 0) : S(o).v.k # "map"}}
              \cup ErrAny
    [] op = "BuildList" ->
         IF D < ins.n THEN {}
         ELSE {Go(Append(PopN(ins.n), E(V("arr", ins.n > 0, FALSE), ip, ip)), ip + 1)}
    [] op = "BuildListWithSpreads" ->
         IF D < ins.n THEN {}
         ELSE Push(PopN(ins.n), ip, ip, {V("arr", t, FALSE) : t \in BOOLEAN})
              \cup UNION {Err(S(k).lo, S(k).hi) : k \in {o \in ListSpreadOff(ins.sp, Len(ins.sp), 0) : S(o).v.k # "arr"}}
    [] op = "CallFunction" ->
         IF D < 1 \/ S(0).v.k # "map" THEN {}
         ELSE IF ins.a = <<"super">>
           THEN Push(PopN(1), ip, ip, SafeStrs) \cup Err(ip, ip) \cup ErrAny
           ELSE Push(PopN(1), ip, ip, AV) \cup Err(ip, ip)
    [] op = "ApplyFilter" ->
         IF D < 2 \/ S(0).v.k # "map" THEN {}
         ELSE Push(PopN(2), ip, ip, AV) \cup Err(ip, ip) \cup Err(S(1).lo, S(1).hi)
    [] op = "RunTest" ->
         IF D < 2 \/ S(0).v.k # "map" THEN {}
         ELSE Push(PopN(2), ip, ip, Bools) \cup Err(ip, ip) \cup Err(S(1).lo, S(1).hi)
    [] op = "RenderInlineComponent" ->
         IF D < 1 \/ S(0).v.k # "map" THEN {}
         ELSE Push(PopN(1), ip, ip, SafeStrs) \cup Err(ip, ip) \cup ErrAny
    [] op = "RenderBodyComponent" ->
         IF D < 2 \/ S(0).v.k # "map" THEN {}
         ELSE Push(PopN(2), ip, ip, SafeStrs) \cup Err(ip, ip) \cup ErrAny
    [] op = "Jump" -> {Go(stack, ins.t)}
    [] op = "PopJumpIfFalse" -> IF D < 1 THEN {} ELSE {Go(PopN(1), IF S(0).v.t THEN ip + 1 ELSE ins.t)}
    [] op = "JumpIfFalseOrPop" -> IF D < 1 THEN {} ELSE {IF S(0).v.t THEN Go(PopN(1), ip + 1) ELSE Go(stack, ins.t)}
    [] op = "JumpIfTrueOrPop" -> IF D < 1 THEN {} ELSE {IF S(0).v.t THEN Go(stack, ins.t) ELSE Go(PopN(1), ip + 1)}
    [] op = "Capture" -> {[f EXCEPT !.pd = @ + 1, !.ip = ip + 1]}
    [] op = "EndCapture" ->
         IF f.pd < 1 THEN {}
         ELSE {[f EXCEPT !.pd = @ - 1, !.ip = ip + 1, !.stack = Append(stack, E(v, ip, ip))] : v \in SafeStrs}
              \cup ErrAny
    [] op \in {"StartIterate", "StartIterateComprehension"} ->
         IF D < 1 THEN {}
         ELSE IF S(0).v.k \notin Iterable \/ (ins.n = 1 /\ S(0).v.k # "map") THEN Err(S(0).lo, S(0).hi)
         ELSE {[f EXCEPT !.stack = PopN(1), !.ip = ip + 1,
                         !.loops = Append(@, [rem |-> r, endip |-> 0, it |-> FALSE])] : r \in Rem(S(0).v)}
    [] op = "StoreLocal" -> {Go(stack, ip + 1)}
    [] op = "Iterate" ->
         IF f.loops = <<>> THEN {Go(stack, ip + 1)}
         ELSE IF Loop.rem = 0 THEN {Go(stack, ins.t)}
         \* rem = 2 stands for "two or more elements left": it may stay 2
         ELSE {[f EXCEPT !.ip = ip + 1,
                         !.loops[Len(f.loops)] = [rem |-> r, endip |-> ins.t, it |-> TRUE]]
                 : r \in (IF Loop.rem = 2 THEN {1, 2} ELSE {0})}
    [] op = "StoreDidNotIterate" ->
         IF f.loops = <<>> THEN {Go(stack, ip + 1)}
         ELSE Push(stack, ip, ip, {V("bool", ~Loop.it, TRUE)})
    [] op = "Break" ->
         IF f.loops = <<>> THEN {Go(stack, ip + 1)}
         ELSE {Go(stack, IF Loop.endip = 0 THEN 1 ELSE Loop.endip)}
    [] op = "PopLoop" ->
         IF f.loops = <<>> THEN {Go(stack, ip + 1)}
         ELSE {[f EXCEPT !.ip = ip + 1, !.loops = SubSeq(@, 1, Len(@) - 1)]}
    [] op = "AppendToList" ->
         IF D < 2 \/ S(1).v.k # "arr" THEN {}
         ELSE {Go(Append(PopN(2), E(V("arr", TRUE, FALSE), S(1).lo, S(1).hi)), ip + 1)}
    [] op \in MathOps ->
         IF D < 2 THEN {}
         ELSE IF S(1).v.k \notin NumK THEN Err(S(1).lo, S(1).hi)
         ELSE IF S(0).v.k \notin NumK THEN Err(S(0).lo, S(0).hi)
         ELSE Push(PopN(2), CLo(S(1), S(0)), CHi(S(1), S(0)), Nums)
              \cup Err(S(0).lo, S(0).hi) \cup Err(CLo(S(1), S(0)), CHi(S(1), S(0)))
    [] op = "Plus" ->
         IF D < 2 THEN {}
         ELSE (IF S(1).v.k \in NumK /\ S(0).v.k \in NumK
                 THEN Push(PopN(2), CLo(S(1), S(0)), CHi(S(1), S(0)), Nums) ELSE {})
              \cup Err(CLo(S(1), S(0)), CHi(S(1), S(0)))
    [] op \in CmpOps ->
         IF D < 2 THEN {}
         ELSE Push(PopN(2), CLo(S(1), S(0)), CHi(S(1), S(0)), Bools) \cup Err(CLo(S(1), S(0)), CHi(S(1), S(0)))
    [] op \in {"Equal", "NotEqual"} ->
         IF D < 2 THEN {} ELSE Push(PopN(2), CLo(S(1), S(0)), CHi(S(1), S(0)), Bools)
    [] op = "StrConcat" ->
         IF D < 2 THEN {} ELSE Push(PopN(2), CLo(S(1), S(0)), CHi(S(1), S(0)), NormStrs)
    [] op = "In" -> IF D < 2 THEN {} ELSE Push(PopN(2), ip, ip, Bools) \cup Err(S(0).lo, S(0).hi)
    [] op = "Not" -> IF D < 1 THEN {} ELSE Push(PopN(1), S(0).lo, S(0).hi, {V("bool", ~S(0).v.t, TRUE)})
    [] op = "Negative" ->
         IF D < 1 THEN {}
         ELSE (IF S(0).v.k \in NumK THEN Push(PopN(1), S(0).lo, S(0).hi, {V(k, S(0).v.t, TRUE) : k \in {"int", "float"}}) ELSE {})
              \cup Err(S(0).lo, S(0).hi)
    [] OTHER -> {}          \* an opcode the specification does not know: no behaviour

\* normal end of a frame: the instruction pointer ran off the end of the chunk
Halted(code, f) == f.st = "run" /\ f.ip = Len(code) + 1

\* ---------------------------------------------------------------- properties of one frame
Balanced(f) == f.st = "done" => f.stack = <<>> /\ f.loops = <<>> /\ f.pd = 0
ErrHasSpan(f) == f.st # "nospan"
JumpOk(code, f) == f.ip \in 1..(Len(code) + 1)
=============================================================================
