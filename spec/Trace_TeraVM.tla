---------------------------- MODULE Trace_TeraVM ----------------------------
(***************************************************************************)
(* Trace validation: every render the harness performs with the tracer on  *)
(* is checked, event by event, to be a behaviour of TeraVM on the REAL     *)
(* listing of the chunk it ran (bound through the chunk's content hash).   *)
(*                                                                         *)
(* Events (cfg(tera_verif) hooks in vm/interpreter.rs, value/mod.rs):      *)
(*   reset / end   delimit one render (written by the harness)             *)
(*   enter / leave a call of `interpret` on a chunk (normal exit only)     *)
(*   op            the state BEFORE an instruction executes                *)
(*   text / sink   a literal write / a value write with its escape choice  *)
(*   mint          a Safe string was created                               *)
(*                                                                         *)
(* Shape disagreement (an observed step that is no member of Succ) blocks  *)
(* the trace: TLC stops and the POSTCONDITION names the line ("REJECTED"). *)
(* Property-level rules (SinkRule, MintRule, BalancedAtLeave, AutoescapeAs *)
(* configured) do not block: the first broken one is recorded in `bad`,    *)
(* printed as a FLAG and the rest of the trace is still checked.           *)
(***************************************************************************)
EXTENDS TeraVM, Json, IOUtils
Rec == ndJsonDeserialize(IOEnv.TRACE)
Chunks == ndJsonDeserialize(IOEnv.CHUNKS)
N == Len(Rec)
\* enter events carry c = the position in Chunks of the chunk with the logged content hash h (the harness
\* resolves h -> c; the specification re-checks that the hashes agree)

\* callables that may mint Safe strings besides the engine's own mint points
SafeFilters == {"safe", "wrap_safe", "viacall", "errkind"}
SafeFunctions == {"super", "mk_safe"}

VARIABLES l, frames, xae, bad, mode
vars == <<l, frames, xae, bad, mode>>

Ev == Rec[l]
Top == frames[Len(frames)]
CodeOf(fr) == Chunks[fr.c].code
Pending(fr) == IF fr.have /\ fr.f.ip >= 1 /\ fr.f.ip <= Len(CodeOf(fr)) THEN CodeOf(fr)[fr.f.ip] ELSE [op |-> "", a |-> <<>>]
AbsSd(fr) == Len(fr.f.stack) + fr.bsd
AbsLd(fr) == Len(fr.f.loops) + fr.bld
AbsPd(fr) == fr.f.pd + fr.bpd

KindOf(name) ==
  CASE name = "undefined" -> "undef" [] name = "none" -> "none" [] name = "bool" -> "bool"
    [] name \in {"u64", "i64", "u128", "i128"} -> "int" [] name = "f64" -> "float"
    [] name = "string" -> "str" [] name = "array" -> "arr" [] name = "map/struct" -> "map"
    [] name = "bytes" -> "bytes" [] OTHER -> "?"
KindEq(a, b) == a = b \/ {a, b} = {"int", "lit"}

\* the observation (depths and top of stack) of event e is the frame state g of frame fr
Observes(fr, g, e) ==
  /\ g.st = "run" /\ g.ip = e.ip
  /\ Len(g.stack) + fr.bsd = e.sd /\ Len(g.loops) + fr.bld = e.ld /\ g.pd + fr.bpd = e.pd
  /\ (g.stack # <<>> =>
        LET t == g.stack[Len(g.stack)] IN
        /\ KindEq(t.v.k, KindOf(e.tk)) /\ t.v.t = e.tt /\ t.v.s = e.ts
        /\ t.lo = e.lo + 1 /\ t.hi = e.hi + 1)

\* the instruction named by the event is the one the listing has at that address
SameInstr(code, e) ==
  /\ e.ip >= 1 /\ e.ip <= Len(code)
  /\ code[e.ip].op = e.op /\ code[e.ip].t = e.t /\ code[e.ip].n = e.n
  /\ e.a = (IF code[e.ip].a = <<>> THEN "" ELSE code[e.ip].a[1])

Flag(rule) == IF bad = "" THEN bad' = rule /\ PrintT(<<"FLAG", ToJson([line |-> l, rule |-> rule])>>) ELSE UNCHANGED bad

Init == l = 1 /\ frames = <<>> /\ xae = "any" /\ bad = "" /\ mode = ""

Reset == /\ Ev.e = "reset" /\ frames = <<>> /\ l' = l + 1
         /\ frames' = <<>> /\ xae' = Ev.xae /\ mode' = Ev.mode /\ UNCHANGED bad

Enter ==
  /\ Ev.e = "enter" /\ l' = l + 1 /\ Ev.c >= 1 /\ Ev.c <= Len(Chunks) /\ Chunks[Ev.c].h = Ev.h
  /\ LET kind == IF frames = <<>> THEN "main" ELSE Pending(Top).op IN
     /\ \/ frames = <<>> /\ Ev.sd = 0 /\ Ev.ld = 0 /\ Ev.pd = 0
        \/ /\ frames # <<>> /\ Top.have /\ kind \in CallOps
           \* a block shares the state of its caller; when a single block is being rendered (render_block) the block
           \* asked for writes into its own buffer with the enclosing captures set aside
           /\ CASE kind = "RenderBlock" -> Ev.sd = AbsSd(Top) /\ Ev.ld = AbsLd(Top) /\ Ev.cd = Top.cd
                                            /\ (Ev.pd = AbsPd(Top) \/ (mode = "render_block" /\ Ev.pd = 0))
                [] kind = "CallFunction" -> Ev.sd = AbsSd(Top) - 1 /\ Ev.ld = AbsLd(Top) /\ Ev.pd = 0 /\ Ev.cd = Top.cd
                                            /\ Pending(Top).a = <<"super">>
                [] kind = "Include" -> Ev.sd = 0 /\ Ev.ld = 0 /\ Ev.pd = 0 /\ Ev.cd = Top.cd
                [] OTHER -> Ev.sd = 0 /\ Ev.ld = 0 /\ Ev.pd = 0 /\ Ev.cd = Top.cd + 1
     /\ frames' = Append(frames, [c |-> Ev.c, f |-> Frame0, have |-> FALSE, kind |-> kind,
                                  bsd |-> Ev.sd, bld |-> Ev.ld, bpd |-> Ev.pd, ae |-> Ev.ae, cd |-> Ev.cd])
     /\ IF xae # "any" /\ (IF Ev.ae THEN "true" ELSE "false") # xae THEN Flag("AutoescapeAsConfigured") ELSE UNCHANGED bad
  /\ UNCHANGED <<xae, mode>>

Op ==
  /\ Ev.e = "op" /\ frames # <<>> /\ l' = l + 1
  /\ SameInstr(CodeOf(Top), Ev)
  /\ \E g \in (IF Top.have THEN Succ(CodeOf(Top), Top.f) ELSE {Frame0}) :
       /\ Observes(Top, g, Ev)
       /\ frames' = [frames EXCEPT ![Len(frames)] = [@ EXCEPT !.f = g, !.have = TRUE]]
  /\ UNCHANGED <<xae, bad, mode>>

Text ==
  /\ Ev.e = "text" /\ frames # <<>> /\ l' = l + 1
  /\ Pending(Top).op = "WriteText" /\ Ev.cap = (AbsPd(Top) > 0)
  /\ UNCHANGED <<frames, xae, bad, mode>>

Sink ==
  /\ Ev.e = "sink" /\ frames # <<>> /\ l' = l + 1
  /\ Pending(Top).op \in {"WriteTop", "WritePath"} /\ Ev.cap = (AbsPd(Top) > 0)
  /\ (Pending(Top).op = "WriteTop" =>
        LET t == Top.f.stack[Len(Top.f.stack)] IN t.v.s = Ev.safe /\ KindEq(t.v.k, KindOf(Ev.k)))
  /\ IF Ev.ae # Top.ae THEN Flag("AutoescapeStableInFrame")
     ELSE IF Ev.esc # (Ev.ae /\ ~Ev.safe) THEN Flag("SinkRule")
     \* what counts as safe is not the engine's to widen: containers and bytes carry data characters and are never safe
     ELSE IF Ev.safe /\ Ev.k \in {"array", "map/struct", "bytes"} THEN Flag("SinkRule")
     ELSE UNCHANGED bad
  /\ UNCHANGED <<frames, xae, mode>>

MintAllowed ==
  \/ frames = <<>>                                   \* API-level body of render_component
  \/ LET p == Pending(Top) IN
     \/ p.op \in {"EndCapture", "RenderInlineComponent", "RenderBodyComponent"}
     \/ p.op = "CallFunction" /\ p.a[1] \in SafeFunctions
     \/ p.op = "ApplyFilter" /\ p.a[1] \in SafeFilters
     \* the two mark-preserving operations: indexing / slicing an already safe string
     \/ LET st == Top.f.stack D == Len(st) IN
        \/ p.op \in {"BinarySubscript", "BinarySubscriptOpt"} /\ D >= 2 /\ st[D - 1].v = V("str", TRUE, TRUE)
        \/ p.op \in {"Slice", "SliceOpt"} /\ D >= 4 /\ st[D - 3].v = V("str", TRUE, TRUE)
Mint ==
  /\ Ev.e = "mint" /\ l' = l + 1
  /\ IF MintAllowed THEN UNCHANGED bad ELSE Flag("MintRule")
  /\ UNCHANGED <<frames, xae, mode>>

Leave ==
  /\ Ev.e = "leave" /\ frames # <<>> /\ l' = l + 1
  /\ \E g \in (IF Top.have THEN Succ(CodeOf(Top), Top.f) ELSE {Frame0}) :
       /\ Halted(CodeOf(Top), g) /\ g.ip = Ev.ip
       /\ Len(g.stack) + Top.bsd = Ev.sd /\ Len(g.loops) + Top.bld = Ev.ld /\ g.pd + Top.bpd = Ev.pd
  /\ IF Ev.sd # Top.bsd \/ Ev.ld # Top.bld \/ Ev.pd # Top.bpd THEN Flag("BalancedAtLeave") ELSE UNCHANGED bad
  /\ frames' = SubSeq(frames, 1, Len(frames) - 1)
  /\ UNCHANGED <<xae, mode>>

\* the render ended: normally with every frame left, or with an error that every open frame can raise / propagate
End ==
  /\ Ev.e = "end" /\ l' = l + 1
  /\ IF Ev.ok THEN frames = <<>>
     ELSE \A i \in 1..Len(frames) : frames[i].have /\ \E g \in Succ(CodeOf(frames[i]), frames[i].f) : g.st = "err"
  /\ frames' = <<>>
  /\ UNCHANGED <<xae, bad, mode>>

Next == l <= N /\ (Reset \/ Enter \/ Op \/ Text \/ Sink \/ Mint \/ Leave \/ End)
Spec == Init /\ [][Next]_vars
Accepted == IF TLCGet("stats").diameter - 1 = N THEN TRUE
            ELSE Print(<<"REJECTED", TLCGet("stats").diameter, "no enabled action for this event">>, FALSE)
=============================================================================
